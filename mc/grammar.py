"""
Class grammar (DESIGN.md 3.6) and value pools (3.7).

A class is described by a JSON-able *record* and materialised with `exec` of generated source, so
annotations, `Attr(...)`, `field(...)`, preparers and subclassing are written exactly as a user
writes them.  `materialize(record)` returns a fresh class (and its environment) every time it is
called; callers that need warmed classes cache per worker.

User callbacks embedded in generated classes (preparers, item preparers, default factories,
__post_init__, __post_copy__) call `CB.hit(name)` first, which lets the fault enumerator (E2) raise
`InjectedCallbackError` at a chosen invocation.
"""
from __future__ import annotations

import copy
import itertools


class InjectedCallbackError(Exception):
    """raised by a user callback on behalf of the fault enumerator"""


class InjectedFault(BaseException):
    """raised from a library line by the line-fault tracer (BaseException: library `except`
    clauses for TypeError/AttributeError/Exception cannot swallow it)"""


class CallbackController:
    def __init__(self):
        self.reset()

    def reset(self):
        self.counts = {}
        self.arm = None  # (name, k)
        self.fired = False
        self.log = []
        self.suspended = False

    def hit(self, name):
        if self.suspended:
            return  # the harness is building argument objects: not part of the operation under test
        n = self.counts.get(name, 0) + 1
        self.counts[name] = n
        if self.arm is not None and self.arm[0] == name and self.arm[1] == n and not self.fired:
            self.fired = True
            raise InjectedCallbackError(f"{name}#{n}")


CB = CallbackController()

# ------------------------------------------------------------------------------------------------
# attribute kinds
# ------------------------------------------------------------------------------------------------
# name: attribute name used for this kind (plural for collections so that the singular helper
# names are natural); ann: annotation source; conf / bad: value specs; lit / mut: default sources
KINDS = {
    "int": dict(name="v", ann="int", conf=[0, 1, 7], bad=["s", None, 1.5, 1.0], lit="1", lit_spec=1),
    "str": dict(name="s", ann="str", conf=["", "a"], bad=[1, None], lit="'d'", lit_spec="d"),
    "float": dict(name="f", ann="float", conf=[0.5, 2], bad=["x"], lit="1.5", lit_spec=1.5),
    "optint": dict(name="o", ann="Optional[int]", conf=[None, 3], bad=["", "x", 0.0, 3.0], lit="None", lit_spec=None),
    "union": dict(name="u", ann="Union[int, str]", conf=[1, "u"], bad=[1.5, None, 1.0], lit="'w'", lit_spec="w"),
    "literal": dict(name="lit", ann="Literal['a', 'b']", conf=["a", "b"], bad=["c", 1], lit="'a'", lit_spec="a"),
    "bounded": dict(name="b", ann="bounded(int, ge=0)", conf=[0, 3], bad=[-1, "x"], lit="2", lit_spec=2),
    "even": dict(name="e", ann="EVEN", conf=[0, 4], bad=[3, "x"], lit="2", lit_spec=2),
    "nums": dict(name="nums", ann="List[int]", conf=[["list", []], ["list", [0]], ["list", [1, 2]], ["tuple", [3]], ["list", [7, 1]]],
                 bad=[5, ["list", ["x"]], ["list", [1, None]]], mut="[1]", mut_spec=["list", [1]],
                 item="num", items=[0, 1, 2, 7], bad_items=["x", None]),
    "words": dict(name="words", ann="List[str]", conf=[["list", []], ["list", ["", "a"]]], bad=[["list", [1]]],
                  mut="['a']", mut_spec=["list", ["a"]], item="word", items=["", "a", "b"], bad_items=[1]),
    "lits": dict(name="lits", ann="List[Literal['a', 'b']]", conf=[["list", []], ["list", ["a", "b"]]],
                 bad=[["list", ["a", "c"]], ["list", ["c"]], 5], mut="['a']", mut_spec=["list", ["a"]], item="lit",
                 items=["a", "b"], bad_items=["c", 1]),
    "grids": dict(name="grids", ann="List[List[int]]", conf=[["list", []], ["list", [["list", [1]], ["list", []]]]],
                  bad=[["list", [["list", [1]], ["list", ["x"]]]], ["list", [1]]], mut="[[1]]", mut_spec=["list", [["list", [1]]]],
                  item="grid", items=[["list", [1]], ["list", []]], bad_items=[["list", ["x"]], 5]),
    "scores": dict(name="scores", ann="Dict[str, int]", conf=[["dict", []], ["dict", [["a", 1]]], ["dict", [["", 0], ["b", 2]]], ["dict", [["c", 7]]]],
                   bad=[5, ["dict", [[1, 1]]], ["dict", [["a", "x"]]]], mut="{'a': 1}", mut_spec=["dict", [["a", 1]]],
                   item="score", keys=["", "a", "b"], bad_keys=[1], items=[0, 1, 2], bad_items=["x"]),
    "tags": dict(name="tags", ann="Set[int]", conf=[["set", []], ["set", [0]], ["set", [1, 2]], ["set", [7]]], bad=[5, ["set", ["x"]]],
                 mut="{1}", mut_spec=["set", [1]], item="tag", items=[0, 1, 2], bad_items=["x"]),
    "labels": dict(name="labels", ann="Set[str]", conf=[["set", []], ["set", [""]], ["set", ["a", "b"]]], bad=[["set", [1]]],
                   mut="{'a'}", mut_spec=["set", ["a"]], item="label", items=["", "a", "b"], bad_items=[1]),
    "leaf": dict(name="leaf", ann="Leaf", conf=[["Leaf", {}], ["Leaf", {"x": 1, "ys": ["list", [1]]}], ["dict", [["x", 2]]]],
                 bad=[5, ["dict", [["x", "bad"]]], ["dict", [["nope", 1]]]], mut="Leaf(x=5, ys=[5])",
                 mut_spec=["Leaf", {"x": 5, "ys": ["list", [5]]}], nested="Leaf"),
    "fleaf": dict(name="leaf", ann="FLeaf", conf=[["Leaf", {}], ["Leaf", {"x": 1, "ys": ["list", [1]]}], ["dict", [["x", 2]]]],
                  bad=[5, ["dict", [["x", "bad"]]], ["dict", [["nope", 1]]]], mut="FLeaf(x=5, ys=[5])",
                  mut_spec=["Leaf", {"x": 5, "ys": ["list", [5]]}], nested="Leaf"),
    "fkids": dict(name="kids", ann="List[FLeaf]", conf=[["list", []], ["list", [["Leaf", {"x": 1}]]],
                                                        ["list", [["Leaf", {}], ["Leaf", {"x": 2, "ys": ["list", [3]]}]]]],
                  bad=[["list", [5]]], mut="[FLeaf(x=5)]", mut_spec=["list", [["Leaf", {"x": 5}]]], item="kid",
                  items=[["Leaf", {}], ["Leaf", {"x": 1}]], bad_items=[5], nested_item="Leaf"),
    "kids": dict(name="kids", ann="List[Leaf]", conf=[["list", []], ["list", [["Leaf", {"x": 1}]]],
                                                       ["list", [["Leaf", {}], ["Leaf", {"x": 2, "ys": ["list", [3]]}]]]],
                 bad=[["list", [5]]], mut="[Leaf(x=5)]", mut_spec=["list", [["Leaf", {"x": 5}]]], item="kid",
                 items=[["Leaf", {}], ["Leaf", {"x": 1}]], bad_items=[5], nested_item="Leaf"),
    "pairs": dict(name="pairs", ann="Dict[str, Leaf]", conf=[["dict", []], ["dict", [["a", ["Leaf", {"x": 1}]]]]],
                  bad=[["dict", [["a", 5]]]], mut="{'a': Leaf(x=5)}", mut_spec=["dict", [["a", ["Leaf", {"x": 5}]]]],
                  item="pair", keys=["a", "b"], bad_keys=[1], items=[["Leaf", {}], ["Leaf", {"x": 1}]], bad_items=[5],
                  nested_item="Leaf"),
    "units": dict(name="units", ann="List[Keyed]", conf=[["list", []], ["list", [["Keyed", {"key": "a"}]]],
                                                         ["list", [["Keyed", {"key": "a", "n": 1}], ["Keyed", {"key": "b"}]]],
                                                         ["list", ["c"]]],
                  bad=[["list", [5]]], mut="[Keyed('d')]", mut_spec=["list", [["Keyed", {"key": "d"}]]], item="unit",
                  items=[["Keyed", {"key": "a"}], ["Keyed", {"key": "b", "n": 1}], "c"], bad_items=[5], nested_item="Keyed"),
    "parts": dict(name="parts", ann="Dict[str, Keyed]", conf=[["dict", []], ["dict", [["a", ["Keyed", {"key": "a"}]]]]],
                  bad=[["dict", [["a", 5]]]], mut="{'d': Keyed('d')}", mut_spec=["dict", [["d", ["Keyed", {"key": "d"}]]]],
                  item="part", keys=["a", "b"], bad_keys=[1], items=[["Keyed", {"key": "a"}], ["Keyed", {"key": "b", "n": 1}]],
                  bad_items=[5], nested_item="Keyed"),
    "links": dict(name="links", ann="KeyedList[Keyed, str]",
                  conf=[["KeyedList", []], ["KeyedList", [["Keyed", {"key": "a"}]]],
                        ["list", [["Keyed", {"key": "a", "n": 1}], ["Keyed", {"key": "b"}]]],
                        ["KeyedList", [["Keyed", {"key": "a", "n": 1}], ["Keyed", {"key": "b"}]]],
                        ["KeyedListK", [["Keyed", {"key": "a"}], ["Keyed", {"key": "b"}]]]],  # user key function
                  small_conf=[2, 3, 4],
                  bad=[["list", [5]], ["RawKeyedList", [1, 2]]], mut="KeyedList[Keyed, str]([Keyed('d')])", mut_spec=["KeyedList", [["Keyed", {"key": "d"}]]],
                  item="link", items=[["Keyed", {"key": "a"}], ["Keyed", {"key": "b", "n": 1}], "c"], bad_items=[5],
                  nested_item="Keyed"),
    "marks": dict(name="marks", ann="KeyedSet[Keyed, str]",
                  conf=[["KeyedSet", []], ["KeyedSet", [["Keyed", {"key": "a"}]]],
                        ["list", [["Keyed", {"key": "a", "n": 1}], ["Keyed", {"key": "b"}]]],
                        ["KeyedSet", [["Keyed", {"key": "a", "n": 1}], ["Keyed", {"key": "b"}]]],
                        ["KeyedSetE", [["Keyed", {"key": "a"}], ["Keyed", {"key": "b", "n": 1}]]],  # enforce_item_equivalence=True: add() can refuse (re-keying a -> b meets an unequal b)
                        ["KeyedSetK", [["Keyed", {"key": "a"}], ["Keyed", {"key": "b"}]]]],  # user key function
                  small_conf=[2, 3, 4, 5],
                  bad=[["list", [5]], ["RawKeyedSet", [1, 2]]], mut="KeyedSet[Keyed, str]([Keyed('d')])", mut_spec=["KeyedSet", [["Keyed", {"key": "d"}]]],
                  item="mark", items=[["Keyed", {"key": "a"}], ["Keyed", {"key": "b", "n": 1}], "c"], bad_items=[5],
                  nested_item="Keyed"),
    "any": dict(name="anyv", ann="Any", conf=[1, ["list", [1]]], bad=[], lit="None", lit_spec=None, mut="[1]", mut_spec=["list", [1]]),
}
# List[EVEN]: items judged by a user validator (a callback that can be made to raise); used by C04 only
KINDS["evens"] = dict(name="evens", ann="List[EVEN]", conf=[["list", []], ["list", [0]], ["list", [2, 4]]], bad=[["list", [3]]],
                      mut="[2]", mut_spec=["list", [2]], item="even", items=[0, 2, 4], bad_items=[3])
# Dict[str, Any] that may hold a value refusing to be copied (used by C01 / C04 only)
KINDS["resources"] = dict(name="resources", ann="Dict[str, Any]", conf=[["dict", []], ["dict", [["a", 1]]], ["dict", [["a", ["Uncopyable"]], ["b", ["list", [1]]]]]],
                          bad=[5], mut="{'a': [1]}", mut_spec=["dict", [["a", ["list", [1]]]]], item="resource", keys=["a", "b"], bad_keys=[1],
                          items=[1, ["Uncopyable"]], bad_items=[])
# List[Inv]: elements carrying derived state (used by C06 only)
KINDS["invs"] = dict(name="invs", ann="List[Inv]", conf=[["list", []], ["list", [["Inv", {"x": 1, "d": 9}]]]], bad=[["list", [5]]],
                     mut="[Inv(x=5)]", mut_spec=["list", [["Inv", {"x": 5}]]], item="inv", items=[["Inv", {}], ["Inv", {"x": 1, "d": 9}]], bad_items=[5],
                     nested_item="Inv")
SCALAR_KINDS = ["int", "str", "float", "optint", "union", "literal", "bounded", "even"]
COLLECTION_KINDS = ["nums", "words", "lits", "grids", "scores", "tags", "labels", "kids", "pairs", "units", "parts", "links", "marks"]
SEQ_KINDS = ["nums", "words", "lits", "grids", "kids", "fkids", "units", "links", "evens", "invs"]
MAP_KINDS = ["scores", "pairs", "parts", "resources"]
SET_KINDS = ["tags", "labels", "marks"]
ALL_KINDS = SCALAR_KINDS + COLLECTION_KINDS[:7] + ["leaf"] + COLLECTION_KINDS[7:]
DEFAULT_MODES = ["none", "lit", "mut", "attr_default", "attr_factory", "field_default", "field_factory"]


def default_source(kind, mode):
    """source text of the class-body default for (kind, mode), or None if the pair is invalid"""
    K = KINDS[kind]
    if mode == "none":
        return ""
    if mode == "nonedefault":
        return " = None"  # a raw default that does not conform (not in DEFAULT_MODES; used by C03 only)
    if mode == "lit":
        return f" = {K['lit']}" if "lit" in K else None
    if mode == "mut":
        return f" = {K['mut']}" if "mut" in K else None
    src = K.get("mut", K.get("lit"))
    if mode == "attr_default":
        return f" = Attr(default={src})"
    if mode == "attr_dnc":
        return f" = Attr(default={src}, do_not_copy=True)"  # the attribute opts out of copying in its own declaration
    if mode == "attr_noinit":
        return f" = Attr(default={src}, init=False)"  # (not in DEFAULT_MODES: the constructor takes no such keyword)
    if mode == "attr_factory":
        return f" = Attr(default_factory=lambda: (CB.hit('factory'), {src})[1])"
    if mode == "ddict":
        # a dict SUBCLASS that invents missing keys on lookup (collections.defaultdict): conforms to Dict[...], survives copies
        return f" = Attr(default_factory=lambda: collections.defaultdict(int, {src}))" if kind in MAP_KINDS else None
    if mode == "field_default":
        if "mut" in K and kind not in ("leaf",):
            # dataclasses.field(default=<list>) is legal at call time (only @dataclass rejects it)
            return f" = field(default={src})"
        return f" = field(default={src})"
    if mode == "field_factory":
        return f" = field(default_factory=lambda: (CB.hit('factory'), {src})[1])"
    raise ValueError(mode)


def default_spec(kind, mode):
    """value spec of the default (None if the attribute has no default)"""
    K = KINDS[kind]
    if mode == "none":
        return ["MISSING"]
    if mode == "nonedefault":
        return None
    if mode == "lit":
        return K["lit_spec"]
    if mode == "mut":
        return K["mut_spec"]
    return K.get("mut_spec", K.get("lit_spec"))


PRELUDE = '''
import collections
import dataclasses
from dataclasses import field
from typing import Any, Dict, List, Optional, Set, Union, Literal
from spec_classes import spec_class, Attr, spec_property, MISSING, Alias
from spec_classes.types import KeyedList, KeyedSet, bounded, validated

def _is_even(v):
    CB.hit('validator')
    return isinstance(v, int) and not isinstance(v, bool) and v % 2 == 0

EVEN = validated(_is_even, name="even")

@spec_class
class Leaf:
    x: int = 0
    ys: List[int] = []
    def __bool__(self):   # a container-like value: FALSY while "empty" (x == 0) - truthiness must never stand in for presence
        return bool(self.x)

@spec_class(key="key")
class Keyed:
    key: str
    n: int = 0
    zs: List[int] = []
    def __len__(self):    # likewise falsy while n == 0
        return self.n if isinstance(self.n, int) and self.n > 0 else 0

@spec_class(frozen=True)
class FLeaf:
    x: int = 0
    ys: List[int] = []

Leaf(); Keyed("w"); FLeaf()

@spec_class
class Inv:
    """an element whose attribute `d` is derived state: reset whenever `x` changes"""
    x: int = 0
    d: int = Attr(default=0, invalidated_by=["x"])

Inv()

class Uncopyable:
    """like a lock: refuses to be copied"""
    def __deepcopy__(self, memo):
        raise TypeError("cannot pickle 'Uncopyable' object")
    def __repr__(self):
        return "Uncopyable()"

# registries consulted by "lookup" preparers (a preparer resolving a name to an EXISTING shared object)
TABLE = {"tbl": Leaf(x=5, ys=[5])}
FTABLE = {"tbl": FLeaf(x=5, ys=[5])}
'''


def attr_name(a):
    return a.get("name") or KINDS[a["kind"]]["name"]


def class_source(rec):
    """rec: {"name", "attrs": [{"kind","default","name"?,"opts": {...}}], "opts": {...}}
    opts: key, frozen, do_not_copy (list|True), bootstrap, preparers [attr], item_preparers [attr],
          invalidated_by {attr: [deps]}, post_init, post_copy,
          inherit: none | spec_sub_add | spec_sub_redefault | plain_sub_redefault | two_levels"""
    o = rec.get("opts", {})
    inherit = o.get("inherit", "none")
    lines = []
    attrs = rec["attrs"]
    base_attrs, sub_attrs = attrs, []
    if inherit in ("spec_sub_add", "two_levels") and len(attrs) > 1:
        base_attrs, sub_attrs = attrs[:-1], attrs[-1:]

    def deco(extra=None, skip_key=False, sub=False):
        args = []
        if o.get("key") and not skip_key:
            args.append(f"key={o['key']!r}")
        inherit_policy = sub and o.get("sub_inherits_policy")  # the subclass states neither frozen nor do_not_copy: both are inherited
        if o.get("frozen") and not inherit_policy:
            args.append("frozen=True")
        if inherit_policy or (o.get("sub_only_policy") and not sub):
            pass  # (sub_only_policy: the PARENT states no copy policy; the spec subclass names an inherited attribute in its list)
        elif o.get("do_not_copy") is True:
            args.append("do_not_copy=True")
        elif o.get("do_not_copy"):
            args.append(f"do_not_copy={list(o['do_not_copy'])!r}")
        if o.get("bootstrap"):
            args.append("bootstrap=True")
        if extra:
            args.extend(extra)
        return "@spec_class(" + ", ".join(args) + ")" if args else "@spec_class"

    def body(alist, with_hooks=True, attrs_part=True, preparers_part=True):
        out = []
        for a in (alist if attrs_part else []):
            K = KINDS[a["kind"]]
            n = attr_name(a)
            src = default_source(a["kind"], a.get("default", "none"))
            if src is None:
                raise ValueError(f"invalid default {a}")
            inv = o.get("invalidated_by", {}).get(n)
            if inv and a.get("default", "none") in ("attr_default", "attr_factory"):
                src = src[:-1] + f", invalidated_by={list(inv)!r})"
            elif inv:
                base = default_spec(a["kind"], a.get("default", "none"))
                raw = K.get("mut", K.get("lit", "MISSING")) if a.get("default", "none") != "none" else "MISSING"
                src = f" = Attr(default={raw}, invalidated_by={list(inv)!r})"
            if a.get("prop") == "setter":
                # an ordinary property with a setter that keeps the value in a private attribute of the instance
                out.append(f"    {n}: {K['ann']}")
                out.append(f"    @property")
                out.append(f"    def {n}(self):")
                out.append(f"        return self._{n}_value")
                out.append(f"    @{n}.setter")
                out.append(f"    def {n}(self, value):")
                out.append(f"        CB.hit('setter')")
                out.append(f"        self._{n}_value = value")
                continue
            if a.get("prop") == "stored":
                # served by a property WITHOUT setter whose getter hands out the instance's own (privately stored) collection:
                # element helpers can edit what they read, but can never store it back
                out.append(f"    {n}: {K['ann']}")
                out.append(f"    @spec_property(cache=False, overridable=False)")
                out.append(f"    def {n}(self):")
                out.append(f"        CB.hit('getter')")
                out.append(f"        return self.__dict__.setdefault('_{n}_store', {K.get('mut', K.get('lit'))})")
                continue
            if a.get("prop"):
                # the attribute is served by a (cached, overridable) spec_property: what is stored for it is an override or a cache
                out.append(f"    {n}: {K['ann']}")
                out.append(f"    @spec_property(cache={a['prop'] == 'cached'!r}, overridable=True" + (f", invalidated_by={list(inv)!r}" if inv else "") + ")")
                out.append(f"    def {n}(self):")
                out.append(f"        CB.hit('getter')")
                raw = K.get('mut', K.get('lit'))
                if a.get("prop_raw"):
                    raw = f"tuple({raw})"  # what the getter hands out conforms only AFTER the attribute's preparation (tuple -> list)
                out.append(f"        return {raw}")
                continue
            out.append(f"    {n}: {K['ann']}{src}")
        for a in (alist if preparers_part else []):
            K = KINDS[a["kind"]]
            n = attr_name(a)
            if a.get("lookup"):
                tbl = "FTABLE" if a["kind"] in ("fleaf", "fkids") else "TABLE"
                if "item" in K:
                    out.append(f"    def _prepare_{K['item']}(self, value):")
                    out.append(f"        CB.hit('prepare_item_{n}')")
                else:
                    out.append(f"    def _prepare_{n}(self, value):")
                    out.append(f"        CB.hit('prepare_{n}')")
                out.append(f"        return {tbl}.get(value, value) if isinstance(value, str) else value")
            if n in o.get("preparers", []):
                out.append(f"    def _prepare_{n}(self, value):")
                out.append(f"        CB.hit('prepare_{n}')")
                out.append(f"        return PREPARERS[{a['kind']!r}](value)")
            if n in o.get("item_preparers", []) and "item" in K:
                out.append(f"    def _prepare_{K['item']}(self, value):")
                out.append(f"        CB.hit('prepare_item_{n}')")
                out.append(f"        return ITEM_PREPARERS[{a['kind']!r}](value)")
        if with_hooks and o.get("post_init_private"):
            # unmanaged mutable state hanging off the instance (copies must not share it either)
            out += ["    def __post_init__(self):", "        CB.hit('post_init')", "        self._priv = [1, [2]]"]
        elif with_hooks and o.get("post_init"):
            out += ["    def __post_init__(self):", "        CB.hit('post_init')"]
        if with_hooks and o.get("post_copy"):
            out += ["    def __post_copy__(self):", "        CB.hit('post_copy')"]
            if o.get("post_copy") == "assigns":
                # the hook as the documentation shows it: it completes the copy by writing to it
                out += ["        self.copies = getattr(self, 'copies', 0) + 1"]
        if not out:
            out.append("    pass")
        return out

    name = rec["name"]
    if inherit == "none":
        lines += [deco(), f"class {name}:"] + body(attrs)
    elif inherit == "spec_sub_add":
        lines += [deco(), f"class {name}Base:"] + body(base_attrs, with_hooks=False)
        lines += ["", deco(sub=True), f"class {name}({name}Base):"] + body(sub_attrs)
    elif inherit == "spec_sub_redefault":
        # subclass re-declares the first attribute's default as a plain class attribute (not the owner)
        lines += [deco(), f"class {name}Base:"] + body(attrs, with_hooks=False)
        a0 = attrs[0]
        K = KINDS[a0["kind"]]
        lines += ["", deco(sub=True), f"class {name}({name}Base):", f"    {attr_name(a0)} = {REDEFAULT_SRC[a0['kind']]}"]
        if o.get("post_init"):
            lines += ["    def __post_init__(self):", "        CB.hit('post_init')"]
        if o.get("post_copy"):
            lines += ["    def __post_copy__(self):", "        CB.hit('post_copy')"]
    elif inherit == "plain_sub_redefault":
        lines += [deco(), f"class {name}Base:"] + body(attrs)
        a0 = attrs[0]
        lines += ["", f"class {name}({name}Base):", f"    {attr_name(a0)} = {REDEFAULT_SRC[a0['kind']]}"]
    elif inherit in ("spec_sub_reprepare", "spec_sub_reprepare_redefault"):
        # the preparers live in the SUBCLASS only (the parent prepares nothing); with _redefault the subclass also
        # re-declares the first attribute's default.  Assignment and every helper must use the subclass' preparers.
        lines += [deco(), f"class {name}Base:"] + body(attrs, with_hooks=False, preparers_part=False)
        lines += ["", deco(), f"class {name}({name}Base):"]
        if inherit.endswith("redefault"):
            lines.append(f"    {attr_name(attrs[0])} = {REDEFAULT_SRC[attrs[0]['kind']]}")
        lines += body(attrs, with_hooks=True, attrs_part=False)
    elif inherit == "plain_sub_baddefault":
        # a plain subclass overriding the default with a value of the wrong type
        lines += [deco(), f"class {name}Base:"] + body(attrs)
        lines += ["", f"class {name}({name}Base):", f"    {attr_name(attrs[0])} = ('bad', 'default')"]
    elif inherit == "two_levels":
        lines += [deco(), f"class {name}Root:"] + body(base_attrs, with_hooks=False)
        lines += ["", f"class {name}Mid({name}Root):", "    pass"]
        lines += ["", deco(), f"class {name}({name}Mid):"] + body(sub_attrs)
    else:
        raise ValueError(inherit)
    if o.get("flip_sub"):
        # a spec subclass with the OPPOSITE copy policy, bootstrapped right away: nothing it does to the attribute
        # specifications it inherits may leak into the (judged) parent class
        names = [attr_name(a) for a in attrs]
        mine = o.get("do_not_copy") if isinstance(o.get("do_not_copy"), list) else []
        flipped = [n for n in names if n not in mine]
        lines += ["", f"@spec_class(do_not_copy={flipped!r})" if flipped else "@spec_class(do_not_copy=False)", f"class {name}Flip({name}):", "    pass",
                  f"{name}Flip.__spec_class__"]
    return "\n".join(lines) + "\n"


REDEFAULT_SRC = {
    "int": "42", "str": "'r'", "float": "4.5", "bounded": "42", "even": "42", "optint": "9", "union": "'r'", "literal": "'b'",
    "nums": "[4, 2]", "lits": "['b']", "grids": "[[4]]", "words": "['r']", "scores": "{'r': 4}", "tags": "{4}", "labels": "{'r'}", "leaf": "Leaf(x=42)",
    "kids": "[Leaf(x=42)]", "pairs": "{'r': Leaf(x=42)}", "units": "[Keyed('r')]", "parts": "{'r': Keyed('r')}",
    "links": "KeyedList[Keyed, str]([Keyed('r')])", "marks": "KeyedSet[Keyed, str]([Keyed('r')])", "any": "[4]",
}
REDEFAULT_SPEC = {
    "int": 42, "str": "r", "float": 4.5, "bounded": 42, "even": 42, "optint": 9, "union": "r", "literal": "b",
    "nums": ["list", [4, 2]], "lits": ["list", ["b"]], "grids": ["list", [["list", [4]]]], "words": ["list", ["r"]], "scores": ["dict", [["r", 4]]], "tags": ["set", [4]], "labels": ["set", ["r"]],
    "leaf": ["Leaf", {"x": 42}], "kids": ["list", [["Leaf", {"x": 42}]]], "pairs": ["dict", [["r", ["Leaf", {"x": 42}]]]],
    "units": ["list", [["Keyed", {"key": "r"}]]], "parts": ["dict", [["r", ["Keyed", {"key": "r"}]]]],
    "links": ["KeyedList", [["Keyed", {"key": "r"}]]], "marks": ["KeyedSet", [["Keyed", {"key": "r"}]]], "any": ["list", [4]],
}


# preparers: pure, total, deterministic; map one designated value to another conforming value and
# one designated value to a NON-conforming value (so that C03 sees preparers returning both)
def _prep_scalar(good_from, good_to, bad_from, bad_to):
    def p(v):
        if type(v) is type(good_from) and v == good_from:
            return good_to
        if type(v) is type(bad_from) and v == bad_from:
            return bad_to
        return v

    return p


PREPARERS = {
    "int": _prep_scalar(7, 8, -1, "bad"),
    "str": _prep_scalar("a", "A", "zz", 5),
    "float": _prep_scalar(0.5, 0.75, -1.0, "bad"),
    "optint": _prep_scalar(3, 4, -1, "bad"),
    "union": _prep_scalar("u", "U", -1, 1.5),
    "literal": _prep_scalar("zz", "b", "yy", "c"),
    "bounded": _prep_scalar(7, 8, 5, -1),
    "even": _prep_scalar(4, 6, 8, 1),
    "nums": lambda v: [8] if v == [7] else v,
    "lits": lambda v: v, "grids": lambda v: v,
    "words": lambda v: ["A"] if v == ["a"] else v,
    "scores": lambda v: {"a": 8} if v == {"a": 7} else v,
    "tags": lambda v: {8} if v == {7} else v,
    "labels": lambda v: {"A"} if v == {"a"} else v,
    "leaf": lambda v: v,
    "kids": lambda v: v, "pairs": lambda v: v, "units": lambda v: v, "parts": lambda v: v, "links": lambda v: v, "marks": lambda v: v,
    "any": lambda v: v,
}
def _prep_chain(v):
    """NOT idempotent (7 -> 8 -> 9): preparing a stored element a second time is visible"""
    if type(v) is int:
        return {7: 8, 8: 9, -1: "bad"}.get(v, v)
    return v


ITEM_PREPARERS = {
    "nums": _prep_chain,
    "lits": lambda v: v, "grids": lambda v: v,
    "words": _prep_scalar("a", "A", "zz", 5),
    "scores": _prep_chain,
    "tags": _prep_chain,
    "labels": _prep_scalar("a", "A", "zz", 5),
    "kids": lambda v: _prep_nested(v), "pairs": lambda v: _prep_nested(v), "units": lambda v: _prep_nested(v),
    "parts": lambda v: _prep_nested(v), "links": lambda v: _prep_nested(v), "marks": lambda v: _prep_nested(v),
}


def _prep_nested(v):
    """item preparer for spec-class items: never edits the incoming item; the designated item (x == 1 / n == 1)
    is REPLACED by a new object (x == 11 / n == 11), everything else passes through"""
    cls = type(v)
    if not hasattr(cls, "__spec_class__"):
        return v
    if getattr(cls.__spec_class__, "key", None) and getattr(v, "n", None) == 1:
        return cls(v.key, n=11, zs=list(v.zs))
    if not getattr(cls.__spec_class__, "key", None) and getattr(v, "x", None) == 1:
        return cls(x=11, ys=list(v.ys))
    return v


class Env:
    """materialised record: namespace with the generated class(es) and helper spec classes"""

    def __init__(self, rec, warm=True):
        self.rec = rec
        ns = {"CB": CB, "PREPARERS": PREPARERS, "ITEM_PREPARERS": ITEM_PREPARERS, "__name__": "verif_generated"}
        exec(compile(PRELUDE, "<verif-prelude>", "exec", dont_inherit=True), ns)
        self.source = class_source(rec)
        exec(compile(self.source, "<verif-class " + rec["name"] + ">", "exec", dont_inherit=True), ns)
        self.ns = ns
        self.cls = ns[rec["name"]]
        self.Leaf, self.Keyed, self.FLeaf = ns["Leaf"], ns["Keyed"], ns["FLeaf"]
        self.KeyedList, self.KeyedSet = ns["KeyedList"], ns["KeyedSet"]
        self.MISSING = ns["MISSING"]
        if warm:
            if rec.get("opts", {}).get("base_first"):
                # first-use order: the PARENT class is bootstrapped, instantiated and reset before the judged subclass is touched
                base = ns.get(rec["name"] + "Base")
                if base is not None:
                    try:
                        import copy as _copy

                        b = base()
                        _copy.deepcopy(b)
                        b.reset()
                        for n in list(base.__spec_class__.attrs):
                            getattr(b, "reset_" + n)()
                    except Exception:
                        pass
            self.cls.__spec_class__  # bootstrap

    def reset_tables(self):
        """fresh registry entries for every rebuilt world (a change made by one transition - or by the
        warm-up calls - must not mask the same change made by the next)"""
        self.ns["TABLE"]["tbl"] = self.Leaf(x=5, ys=[5])
        self.ns["FTABLE"]["tbl"] = self.FLeaf(x=5, ys=[5])
        _FOREIGN[self.Leaf] = self.ns["TABLE"]["tbl"]
        _FOREIGN[self.FLeaf] = self.ns["FTABLE"]["tbl"]

    # ---- values -------------------------------------------------------------------------------
    def mk(self, spec):
        """value spec -> fresh object"""
        import spec_classes

        if isinstance(spec, list) and spec and isinstance(spec[0], str):
            tag = spec[0]
            if tag == "list":
                return [self.mk(x) for x in spec[1]]
            if tag == "tuple":
                return tuple(self.mk(x) for x in spec[1])
            if tag == "set":
                return {self.mk(x) for x in spec[1]}
            if tag == "dict":
                return {self.mk(k): self.mk(v) for k, v in spec[1]}
            if tag == "Leaf":
                cls = self.FLeaf if self.rec.get("opts", {}).get("leaf_is_frozen") else self.Leaf
                return cls(**{k: self.mk(v) for k, v in spec[1].items()})
            if tag == "FLeaf":
                return self.FLeaf(**{k: self.mk(v) for k, v in spec[1].items()})
            if tag == "Keyed":
                return self.Keyed(**{k: self.mk(v) for k, v in spec[1].items()})
            if tag == "KeyedList":
                return self.KeyedList[self.Keyed, str]([self.mk(x) for x in spec[1]])
            if tag == "KeyedSet":
                return self.KeyedSet[self.Keyed, str]([self.mk(x) for x in spec[1]])
            if tag == "Inv":
                inst = self.ns["Inv"](x=spec[1].get("x", 0))
                if "d" in spec[1]:
                    inst.d = spec[1]["d"]
                return inst
            if tag == "Uncopyable":
                return self.ns["Uncopyable"]()
            if tag == "KeyedSetK":
                # a user key function (a callback that can be made to raise at any of its invocations)
                return self.KeyedSet[self.Keyed, str]([self.mk(x) for x in spec[1]], key=_cb_key)
            if tag == "KeyedListK":
                return self.KeyedList[self.Keyed, str]([self.mk(x) for x in spec[1]], key=_cb_key)
            if tag == "KeyedSetE":
                return self.KeyedSet[self.Keyed, str]([self.mk(x) for x in spec[1]], enforce_item_equivalence=True)
            if tag == "RawKeyedList":
                return self.KeyedList([self.mk(x) for x in spec[1]])
            if tag == "RawKeyedSet":
                return self.KeyedSet([self.mk(x) for x in spec[1]])
            if tag == "inst":
                return self.cls(**{k: self.mk(v) for k, v in spec[1].items()})
            if tag == "MISSING":
                return spec_classes.MISSING
            if tag == "UNCHANGED":
                return spec_classes.UNCHANGED
            if tag == "fn":
                return TRANSFORMS[spec[1]]
            if tag == "self":
                return self.cls
            raise ValueError(spec)
        # "fresh object" also for immutable leaves (as far as CPython allows): whether an argument IS the stored
        # value must not depend on whether the op came from the generator or from a JSON replay file
        if type(spec) is float:
            return float(repr(spec))
        if type(spec) is str and len(spec) > 1:
            return "".join(list(spec))
        return spec


# ------------------------------------------------------------------------------------------------
# transforms: pure functions returning new objects (argument objects are never mutated)
# ------------------------------------------------------------------------------------------------
def _cb_key(item):
    CB.hit("keyfn")
    return item.key


def t_inc(v):
    CB.hit("transform")
    return _inc_value(v)


def _inc_value(v):
    if isinstance(v, bool) or v is None:
        return 1
    if isinstance(v, (int, float)):
        return v + 1
    if isinstance(v, str):
        return v + "+"
    if isinstance(v, list):
        return list(v) + [9] if all(isinstance(x, int) for x in v) else copy.deepcopy(v)
    if isinstance(v, dict):
        if all(isinstance(x, int) for x in v.values()):
            d = dict(v)
            d["t"] = 9
            return d
        return copy.deepcopy(v)
    if isinstance(v, set):
        return set(v) | {9} if all(isinstance(x, int) for x in v) else copy.deepcopy(v)
    if hasattr(v, "with_x"):
        return v.with_x(v.x + 1)
    if hasattr(v, "with_n"):
        return v.with_n(v.n + 1)
    return copy.deepcopy(v)


def t_bad(v):
    CB.hit("transform")
    return ("bad", "type")


def t_missing(v):
    CB.hit("transform")
    import spec_classes

    return spec_classes.MISSING


def t_raise(v):
    CB.hit("transform")
    raise InjectedCallbackError("transform raises")


def t_same(v):
    CB.hit("transform")
    return copy.deepcopy(v)


def t_eqbad(v):
    """a value of the wrong type that is EQUAL to (int -> float) / keyed like (keyed item -> its bare key) the old one:
    a membership test cannot tell it from the conforming original"""
    CB.hit("transform")
    if isinstance(v, int) and not isinstance(v, bool):
        return float(v)
    if hasattr(type(v), "__spec_class__") and getattr(type(v).__spec_class__, "key", None):
        return getattr(v, type(v).__spec_class__.key)
    return ("bad", "type")


def t_ident(v):
    """hands back the very object it was given (a transform need not build a new value)"""
    CB.hit("transform")
    return v


def t_shallow(v):
    """a NEW container / instance that still holds the very elements it was given (`v[::-1]`, `{**d}`, `copy.copy(x)`):
    what a transform is handed must therefore never be the receiver's live value"""
    CB.hit("transform")
    if isinstance(v, list) and type(v) is list:
        return v[::-1]
    if type(v) is dict:
        return {**v}
    if type(v) is set:
        return set(v)
    if hasattr(type(v), "__spec_class__") or isinstance(v, (list, dict, set)):
        return copy.copy(v) if not hasattr(v, "_list") and not hasattr(v, "_dict") else v
    return v


def t_mutret(v):
    """edits the value it is given and hands it back (same value function as `inc` for int collections)"""
    CB.hit("transform")
    if type(v) is list and all(isinstance(x, int) for x in v):
        v.append(9)
        return v
    if type(v) is dict and all(isinstance(x, int) for x in v.values()):
        v["t"] = 9
        return v
    if type(v) is set and all(isinstance(x, int) for x in v):
        v.add(9)
        return v
    return _inc_value(v)


def t_pin(v):
    """sets the nested attribute to a fixed value, whatever it was (does not commute with an attribute transform of it)"""
    CB.hit("transform")
    if hasattr(v, "with_x"):
        return v.with_x(10)
    if hasattr(v, "with_n"):
        return v.with_n(10)
    return _inc_value(v)


_FOREIGN = {}  # class -> the registry object of that class in the class's own environment


def t_foreign(v):
    """hands back an object that already exists OUTSIDE the call (a registry entry): what a transform returns is not the
    library's to edit"""
    CB.hit("transform")
    # (the registry entry of the value's own class: several environments - e.g. a class and its frozen twin - are alive at once)
    entry = _FOREIGN.get(type(v))
    return entry if entry is not None else _inc_value(v)


TRANSFORMS = {"foreign": t_foreign, "pin": t_pin, "shallow": t_shallow, "mutret": t_mutret, "inc": t_inc, "bad": t_bad, "missing": t_missing, "raise": t_raise, "same": t_same, "ident": t_ident, "eqbad": t_eqbad}


# ------------------------------------------------------------------------------------------------
# families of class records
# ------------------------------------------------------------------------------------------------
def single(kind, default, **opts):
    name = f"G_{kind}_{default}" + "".join(
        "_" + k + (("_" + "_".join(map(str, v))) if isinstance(v, list) else ("" if v is True else "_" + str(v)))
        for k, v in sorted(opts.items()) if v
    ).replace("'", "").replace(" ", "")
    return {"name": name[:80], "attrs": [{"kind": kind, "default": default}], "opts": dict(opts)}


def valid_single(kind, default):
    return default_source(kind, default) is not None


def composite(name, kinds_defaults, **opts):
    return {"name": name, "attrs": [{"kind": k, "default": d} for k, d in kinds_defaults], "opts": dict(opts)}


COMPOSITES = [
    composite("CompA", [("int", "lit"), ("nums", "mut"), ("leaf", "none")]),
    composite("CompB", [("str", "none"), ("scores", "attr_factory"), ("kids", "mut")]),
    composite("CompC", [("int", "none"), ("tags", "mut"), ("units", "none")], item_preparers=["nums"]),
    composite("CompKeyed", [("str", "none"), ("int", "lit"), ("nums", "mut")], key="s"),
    composite("CompInh", [("int", "lit"), ("nums", "mut"), ("leaf", "mut")], inherit="spec_sub_add"),
    composite("CompDnc", [("int", "lit"), ("nums", "mut"), ("kids", "mut")], do_not_copy=["nums"]),
    composite("CompKL", [("links", "none"), ("marks", "none"), ("int", "lit")]),
    composite("CompPrep", [("int", "lit"), ("nums", "mut"), ("scores", "none")], preparers=["v"], item_preparers=["nums", "scores"]),
    composite("CompInv", [("int", "lit"), ("str", "lit"), ("nums", "mut")], invalidated_by={"s": ["v"], "nums": ["v"]}),
    composite("CompInvNoDefault", [("int", "none"), ("str", "lit"), ("float", "lit")], invalidated_by={"s": ["v"], "f": ["s"]}),
]


def lookup_records():
    """classes whose preparer resolves the name "tbl" to an existing shared object (never in the default
    families: a shared object is shared by the user's own doing, which C02/C08 must not be asked to judge)"""
    return [
        {"name": "LookupLeaf", "attrs": [{"kind": "leaf", "default": "none", "lookup": True}, {"kind": "int", "default": "lit"}], "opts": {}},
        {"name": "LookupKids", "attrs": [{"kind": "kids", "default": "mut", "lookup": True}, {"kind": "int", "default": "lit"}], "opts": {}},
    ]


def bad_default_records():
    """raw class-level defaults that do not conform to the annotation (C03: they must never be (re-)installed)"""
    return [
        single("nums", "nonedefault"),
        single("scores", "nonedefault"),
        {"name": "BadDefaultInv", "attrs": [{"kind": "int", "default": "lit"}, {"kind": "nums", "default": "nonedefault"}],
         "opts": {"invalidated_by": {"nums": ["v"]}}},
        single("int", "lit", inherit="plain_sub_baddefault"),
        single("nums", "mut", inherit="plain_sub_baddefault"),
    ]


def failing_invalidation_records():
    """a dependant whose re-default calls user code (default_factory): invalidation itself can then raise"""
    return [{"name": "CompInvFactory", "attrs": [{"kind": "int", "default": "lit"}, {"kind": "nums", "default": "attr_factory"}, {"kind": "str", "default": "lit"}],
             "opts": {"invalidated_by": {"nums": ["v"], "s": ["v"]}}},
            # the attribute being written has NO value yet: putting the instance back means removing it again
            {"name": "CompInvFactoryNoDefault", "attrs": [{"kind": "int", "default": "none"}, {"kind": "nums", "default": "attr_factory"}],
             "opts": {"invalidated_by": {"nums": ["v"]}}},
            # two factory-defaulted dependants BEHIND an intermediate one: when the second re-default fails, the first
            # (a transitive dependant of the attribute being written) must be put back as well
            {"name": "CompInvFactoryChain", "attrs": [{"kind": "int", "default": "lit"}, {"kind": "str", "default": "lit"},
                                                       {"kind": "nums", "default": "attr_factory"}, {"kind": "scores", "default": "attr_factory"}],
             "opts": {"invalidated_by": {"s": ["v"], "nums": ["s"], "scores": ["s"]}}},
            # the attribute being written is a COLLECTION edited by an in-place element helper: when the invalidation of
            # its dependant fails, the element edit itself has to be undone as well (not only the attribute binding)
            {"name": "CompInvFactoryColl", "attrs": [{"kind": "scores", "default": "mut"}, {"kind": "tags", "default": "mut"},
                                                      {"kind": "nums", "default": "attr_factory"}],
             "opts": {"invalidated_by": {"nums": ["scores", "tags"]}}},
            # the link between the attribute being written and the factory-defaulted dependants is a property that stores
            # NOTHING (uncached): invalidation passes through it without any nested delete that could put things back
            {"name": "CompInvThroughProperty", "attrs": [{"kind": "int", "default": "lit"}, {"kind": "nums", "default": "none", "prop": "uncached"},
                                                          {"kind": "scores", "default": "attr_factory"}, {"kind": "tags", "default": "attr_factory"}],
             "opts": {"invalidated_by": {"nums": ["v"], "scores": ["nums"], "tags": ["nums"]}}},
            {"name": "CompInvFactoryKeyed", "attrs": [{"kind": "marks", "default": "none"}, {"kind": "links", "default": "none"},
                                                       {"kind": "nums", "default": "attr_factory"}],
             "opts": {"invalidated_by": {"nums": ["marks", "links"]}}},
            {"name": "CompInvFactoryWords", "attrs": [{"kind": "words", "default": "mut"}, {"kind": "nums", "default": "attr_factory"}],
             "opts": {"invalidated_by": {"nums": ["words"]}}}]


def validated_item_records():
    return [single("evens", "mut"), composite("CompEvens", [("int", "lit"), ("evens", "mut")])]


def dnc_class_records():
    """classes declared do_not_copy=True are edited live by EVERY helper (they are never copied): a failing multi-step call
    without _inplace is then just as much a partial-commit hazard as one with it"""
    return [composite("CompDncClass", [("int", "lit"), ("str", "lit")], do_not_copy=True),
            composite("CompDncClassInv", [("int", "lit"), ("nums", "attr_factory")], do_not_copy=True, invalidated_by={"nums": ["v"]})]


def dnc_parent_records():
    """the PARENT is declared do_not_copy=True (edited in place by design); the judged class is a spec subclass that does not
    restate the policy: its instances are copied by the copy-on-write helpers (only the inherited attributes are carried over
    by reference), so the receiver must not change"""
    return [{"name": "DncParentSub", "attrs": [{"kind": "int", "default": "lit"}, {"kind": "str", "default": "lit"}, {"kind": "nums", "default": "mut"}],
             "opts": {"do_not_copy": True, "inherit": "spec_sub_add", "sub_inherits_policy": True}}]


def empty_state_records():
    """instances that store NOTHING after construction (no attribute has a default): the emptiest receiver there is"""
    return [composite("CompEmpty", [("int", "none"), ("str", "none")]), composite("CompEmptyColl", [("nums", "none"), ("int", "none"), ("leaf", "none")])]


def property_served_records():
    return [
        {"name": "PropNums", "attrs": [{"kind": "nums", "default": "none", "prop": "cached"}, {"kind": "int", "default": "lit"}], "opts": {}},
        {"name": "PropScores", "attrs": [{"kind": "scores", "default": "none", "prop": "cached"}, {"kind": "int", "default": "lit"}], "opts": {}},
        {"name": "PropKidsUncached", "attrs": [{"kind": "kids", "default": "none", "prop": "uncached"}], "opts": {}},
        {"name": "PropNumsRaw", "attrs": [{"kind": "nums", "default": "none", "prop": "cached", "prop_raw": True}, {"kind": "int", "default": "lit"}], "opts": {}},
        {"name": "PropNumsStored", "attrs": [{"kind": "nums", "default": "none", "prop": "stored"}, {"kind": "int", "default": "lit"}], "opts": {}},
        {"name": "PropTagsStored", "attrs": [{"kind": "tags", "default": "none", "prop": "stored"}, {"kind": "scores", "default": "none", "prop": "stored"}], "opts": {}},
    ]


def setter_served_records():
    return [{"name": "SetterInt", "attrs": [{"kind": "int", "default": "none", "prop": "setter"}, {"kind": "nums", "default": "mut"}], "opts": {}},
            {"name": "SetterNums", "attrs": [{"kind": "nums", "default": "none", "prop": "setter"}, {"kind": "int", "default": "lit"}], "opts": {}}]


def uncopyable_records():
    return [single("resources", "mut"), composite("CompRes", [("int", "lit"), ("resources", "none"), ("nums", "mut")])]


def policy_inheritance_records():
    """copy policy / frozen-ness that a spec subclass inherits without restating it, and an attribute-level opt-out"""
    return [
        {"name": "DncInherited", "attrs": [{"kind": "nums", "default": "mut"}, {"kind": "int", "default": "lit"}, {"kind": "kids", "default": "mut"}],
         "opts": {"do_not_copy": ["nums"], "inherit": "spec_sub_add", "sub_inherits_policy": True}},
        {"name": "DncInheritedRedefault", "attrs": [{"kind": "nums", "default": "mut"}, {"kind": "leaf", "default": "mut"}],
         "opts": {"do_not_copy": ["leaf"], "inherit": "spec_sub_redefault", "sub_inherits_policy": True}},
        {"name": "DncSubOnly", "attrs": [{"kind": "nums", "default": "mut"}, {"kind": "int", "default": "lit"}, {"kind": "kids", "default": "mut"}],
         "opts": {"do_not_copy": ["nums"], "inherit": "spec_sub_add", "sub_only_policy": True}},
        single("nums", "attr_dnc"),
        {"name": "AttrDncPlusOther", "attrs": [{"kind": "leaf", "default": "attr_dnc"}, {"kind": "nums", "default": "mut"}], "opts": {}},
    ]


def base_first_records():
    return [
        single("nums", "mut", inherit="plain_sub_redefault", base_first=True),
        single("int", "lit", inherit="plain_sub_redefault", base_first=True),
        single("nums", "mut", inherit="spec_sub_redefault", base_first=True),
        single("leaf", "mut", inherit="plain_sub_redefault", base_first=True),
        # the owner declares NO default; the plain subclass gives the attribute its first one
        single("nums", "none", inherit="plain_sub_redefault", base_first=True),
        single("leaf", "none", inherit="plain_sub_redefault", base_first=True),
        # the subclass ADDS attributes: whatever was worked out for the parent does not describe them
        {"name": "BaseFirstAdds", "attrs": [{"kind": "int", "default": "lit"}, {"kind": "nums", "default": "mut"}, {"kind": "kids", "default": "mut"}],
         "opts": {"inherit": "spec_sub_add", "base_first": True}},
        {"name": "BaseFirstAddsLeaf", "attrs": [{"kind": "nums", "default": "mut"}, {"kind": "leaf", "default": "mut"}],
         "opts": {"inherit": "spec_sub_add", "base_first": True}},
    ]


def private_state_records():
    return [single("nums", "mut", post_init_private=True), composite("CompPriv", [("int", "lit"), ("leaf", "mut")], post_init_private=True)]


def reprepare_records():
    """preparers defined by a spec subclass for attributes it inherits"""
    return [
        single("int", "lit", preparers=["v"], inherit="spec_sub_reprepare_redefault"),
        single("nums", "mut", preparers=["nums"], inherit="spec_sub_reprepare_redefault"),
        single("nums", "mut", item_preparers=["nums"], inherit="spec_sub_reprepare_redefault"),
        single("int", "lit", preparers=["v"], inherit="spec_sub_reprepare"),
        single("nums", "mut", item_preparers=["nums"], inherit="spec_sub_reprepare"),
    ]


def twin_records():
    """two attributes of the same kind, so that one object can sit at two places of the same instance"""
    return [
        {"name": "TwinNums", "attrs": [{"kind": "nums", "default": "mut"}, {"kind": "nums", "default": "mut", "name": "nums2"}, {"kind": "int", "default": "lit"}],
         "opts": {"alias_pairs": [["nums", "nums2"]]}},
        {"name": "TwinLeaf", "attrs": [{"kind": "leaf", "default": "mut"}, {"kind": "leaf", "default": "none", "name": "leaf2"}, {"kind": "kids", "default": "mut"}],
         "opts": {"alias_pairs": [["leaf", "leaf2"]]}},
    ]


def env_roots(env):
    """objects outside every instance that no helper call may change"""
    return {"TABLE": env.ns["TABLE"], "FTABLE": env.ns["FTABLE"]}


def quick_family():
    """every kind once with two default modes, every option once, all composites"""
    recs = []
    for kind in ALL_KINDS:
        modes = [m for m in ("none", "mut", "lit") if valid_single(kind, m)][:2]
        for m in modes:
            recs.append(single(kind, m))
    # default modes
    for kind, m in (("nums", "attr_default"), ("nums", "attr_factory"), ("scores", "field_factory"), ("int", "field_default"),
                    ("leaf", "attr_factory"), ("kids", "attr_factory"), ("tags", "attr_default"), ("int", "attr_default")):
        recs.append(single(kind, m))
    # options one at a time
    recs += [
        single("int", "lit", preparers=["v"]),
        single("nums", "mut", preparers=["nums"]),
        single("nums", "mut", item_preparers=["nums"]),
        single("words", "mut", preparers=["words"]),        # the DEFAULT itself is a value the preparer changes
        single("words", "mut", item_preparers=["words"]),
        single("scores", "mut", item_preparers=["scores"]),
        single("tags", "mut", item_preparers=["tags"]),
        single("links", "none", item_preparers=["links"]),
        single("marks", "none", item_preparers=["marks"]),
        single("kids", "mut", item_preparers=["kids"]),
        single("nums", "mut", do_not_copy=["nums"]),
        single("nums", "mut", do_not_copy=["nums"], item_preparers=["nums"]),   # nobody but the item preparation copies
        single("kids", "mut", do_not_copy=["kids"], item_preparers=["kids"]),
        single("leaf", "mut", do_not_copy=["leaf"]),
        single("nums", "mut", bootstrap=True),
        single("leaf", "none", bootstrap=True),
        single("nums", "mut", inherit="spec_sub_redefault"),
        single("nums", "mut", inherit="plain_sub_redefault"),
        single("int", "lit", inherit="spec_sub_redefault"),
        single("leaf", "mut", inherit="plain_sub_redefault"),
        single("nums", "mut", flip_sub=True),
        single("kids", "mut", do_not_copy=["kids"], flip_sub=True),
        single("nums", "mut", post_copy=True),
        single("nums", "mut", post_init=True),
    ]
    recs += COMPOSITES
    return recs


def full_family():
    recs = []
    seen = set()

    def add(r):
        if r["name"] not in seen:
            seen.add(r["name"])
            recs.append(r)

    for r in quick_family():
        add(r)
    for kind in ALL_KINDS:
        for m in DEFAULT_MODES:
            if valid_single(kind, m):
                add(single(kind, m))
    for kind in ALL_KINDS:
        K = KINDS[kind]
        n = K["name"]
        base_mode = "mut" if "mut" in K else "lit"
        add(single(kind, base_mode, preparers=[n]))
        if "item" in K:
            add(single(kind, base_mode, item_preparers=[n]))
        add(single(kind, base_mode, do_not_copy=[n]))
        add(single(kind, base_mode, bootstrap=True))
        for inh in ("spec_sub_redefault", "plain_sub_redefault"):
            add(single(kind, base_mode, inherit=inh))
        add(single(kind, "attr_factory", inherit="plain_sub_redefault"))
        add(single(kind, base_mode, post_copy=True))
    return recs
