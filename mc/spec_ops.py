"""
Operation alphabet and interpreter for spec-class instances of the grammar (DESIGN.md 3.1/3.7).

World: {"env": Env, "objs": [instances...], "args": [objects handed to the current call],
        "ctor_args": [objects handed to constructors, retained]}
Ops are JSON-able dicts:
  {"op":"new","kw":{attr: vspec}, "pos":[vspec], "t": slot}
  {"op":"set","attr":n,"value":vspec,"t":slot}        {"op":"del","attr":n,"t":slot}
  {"op":"call","m":method,"args":[vspec],"kw":{k:vspec},"t":slot}   (cow iff no _inplace=True)
  {"op":"deepcopy","t":slot}
Each op carries "shape": a short label of the call form used in violation signatures.
"""
from __future__ import annotations

import copy
import itertools

from mc import grammar as G
from mc.grammar import KINDS


class World:
    def __init__(self, env):
        self.env = env
        self.objs = []
        self.args = []
        self.ctor_args = []

    @property
    def obj(self):
        return self.objs[0]


class Outcome:
    def __init__(self, kind, value=None, exc=None, receiver=None, args=None, cow=False, result=None):
        self.kind, self.value, self.exc = kind, value, exc
        self.receiver, self.args, self.cow, self.result = receiver, args or [], cow, result

    @property
    def raised(self):
        return self.kind == "raise"

    def family(self):
        if not self.raised:
            return None
        e = self.exc
        for b in (G.InjectedCallbackError, IndexError, KeyError, AttributeError, TypeError, ValueError):
            if isinstance(e, b):
                return b.__name__
        n = type(e).__name__
        return n

    def brief(self):
        if self.raised:
            return f"raise {type(self.exc).__name__}: {str(self.exc)[:150]}"
        return f"value {type(self.value).__name__}"


def is_inplace(op):
    return op["op"] in ("set", "del") or (op["op"] == "call" and op.get("kw", {}).get("_inplace") is True)


def is_cow(op):
    return op["op"] == "deepcopy" or (op["op"] == "call" and not op.get("kw", {}).get("_inplace"))


def execute(world, op, adopt=True, pre_hook=None):
    """run one op on the real objects.  Argument objects are freshly built and kept in
    world.args.  Returns Outcome; if `adopt` and a cow call returned an instance, the slot is
    replaced by the result (the old receiver stays referenced by the Outcome)."""
    env = world.env
    t = op.get("t", 0)
    world.args = []

    def mk(spec):
        G.CB.suspended = True
        try:
            return mk_(spec)
        finally:
            G.CB.suspended = False

    def mk_(spec):
        if isinstance(spec, list) and spec and spec[0] == "elem":
            # the object currently stored at <attr>[i] of the receiver (aliasing an existing element)
            o = getattr(world.objs[t], spec[1])[spec[2]]
        elif isinstance(spec, list) and spec and spec[0] == "attr":
            # the object currently stored at attribute <attr> of the receiver (aliasing between two attributes)
            o = getattr(world.objs[t], spec[1])
        else:
            o = env.mk(spec)
        world.args.append(o)
        return o

    kind = op["op"]
    try:
        if kind == "new":
            pos = [mk(s) for s in op.get("pos", [])]
            kw = {k: mk(s) for k, s in op.get("kw", {}).items()}
            world.ctor_args.extend(world.args)
            if pre_hook:
                pre_hook(world)
            cls = env.ns[op["cls"]] if op.get("cls") else env.cls
            inst = cls(*pos, **kw)
            if "t" in op and op["t"] < len(world.objs):
                world.objs[op["t"]] = inst
            else:
                world.objs.append(inst)
            return Outcome("value", value=inst, args=list(world.args), result=inst)
        recv = world.objs[t]
        if kind == "set":
            v = mk(op["value"])
            if pre_hook:
                pre_hook(world)
            setattr(recv, op["attr"], v)
            return Outcome("value", receiver=recv, args=list(world.args))
        if kind == "del":
            if pre_hook:
                pre_hook(world)
            delattr(recv, op["attr"])
            return Outcome("value", receiver=recv)
        if kind == "deepcopy":
            if pre_hook:
                pre_hook(world)
            r = copy.deepcopy(recv)
            if adopt:
                world.objs[t] = r
            return Outcome("value", value=r, receiver=recv, cow=True, result=r)
        if kind == "call":
            args = [mk(s) for s in op.get("args", [])]
            kw = {k: mk(s) for k, s in op.get("kw", {}).items()}
            cow = not op.get("kw", {}).get("_inplace")
            if pre_hook:
                pre_hook(world)
            r = getattr(recv, op["m"])(*args, **kw)
            if adopt and cow and isinstance(r, type(recv)) and r is not recv:
                world.objs[t] = r
            return Outcome("value", value=r, receiver=recv, args=list(world.args), cow=cow, result=r)
        raise ValueError(op)
    except G.InjectedFault:
        raise
    except Exception as e:
        recv = world.objs[t] if kind != "new" and t < len(world.objs) else None
        return Outcome("raise", exc=e, receiver=recv, args=list(world.args), cow=is_cow(op))


def build(env, history, n_init=1):
    """fresh world with `history` replayed (history[0] is normally a 'new' op)"""
    G.CB.reset()
    env.reset_tables()
    w = World(env)
    for op in history:
        execute(w, op)
    return w


# ------------------------------------------------------------------------------------------------
# alphabet
# ------------------------------------------------------------------------------------------------
def attr_table(rec):
    """[(attr name, kind record, attr dict)]"""
    return [(G.attr_name(a), KINDS[a["kind"]], a) for a in rec["attrs"]]


def _call(m, shape, *args, **kw):
    return {"op": "call", "m": m, "args": list(args), "kw": kw, "shape": shape}


def _flags(inplace, if_=True):
    kw = {}
    if inplace:
        kw["_inplace"] = True
    if if_ is False:
        kw["_if"] = False
    return kw


FN = lambda n: ["fn", n]  # noqa


def current_len(obj, n):
    try:
        v = getattr(obj, n)
        return len(v)
    except Exception:
        return 0


def scalar_ops(n, K, a, obj, P):
    """helper calls addressing the attribute as a whole"""
    ops = []
    inpl = P.get("inplace", (False, True))
    conf = list(K["conf"])
    bad = list(K["bad"]) if P.get("invalid", True) else []
    if P.get("small"):
        conf = [conf[i] for i in K["small_conf"]] if "small_conf" in K else conf[:1] + conf[-1:]
        bad = bad[:1] + bad[1:][-2:]  # (first + the last two: a Dict kind lists a bad-KEY and a bad-VALUE dict, both are kept)
    for ip in inpl:
        f = _flags(ip)
        for v in conf:
            ops.append(_call(f"with_{n}", "with:conf", v, **f))
        for v in bad:
            ops.append(_call(f"with_{n}", "with:bad", v, **f))
        if K.get("nested") or "item" in K:
            ops.append(_call(f"with_{n}", "with:noargs", **f))
        if P.get("sentinels", True):
            ops.append(_call(f"with_{n}", "with:MISSING", ["MISSING"], **f))
            ops.append(_call(f"with_{n}", "with:UNCHANGED", ["UNCHANGED"], **f))
            ops.append(_call(f"update_{n}", "update:UNCHANGED", ["UNCHANGED"], **f))
        if K.get("nested"):
            ops.append(_call(f"with_{n}", "with:kw", x=3, **f))
            if P.get("value_plus_kw", True):
                ops.append(_call(f"with_{n}", "with:value+kw", conf[-2] if len(conf) > 1 else conf[0], x=6, **f))
                ops.append(_call(f"update_{n}", "update:value+kw", conf[-2] if len(conf) > 1 else conf[0], x=6, **f))
            ops.append(_call(f"update_{n}", "update:kw", x=4, **f))
            ops.append(_call(f"update_{n}", "update:kw2", x=4, ys=["list", [6]], **f))
            ops.append(_call(f"transform_{n}", "transform:attrfn", x=FN("inc"), **f))
            ops.append(_call(f"transform_{n}", "transform:ident+attrfn", FN("ident"), x=FN("inc"), **f))
            # a whole-value transform and an attribute transform that do NOT commute: the documented order is value first
            ops.append(_call(f"transform_{n}", "transform:pin+attrfn", FN("pin"), x=FN("inc"), **f))
            # the whole-value transform returns an object that exists outside the call: the attribute transform must not edit IT
            ops.append(_call(f"transform_{n}", "transform:foreign+attrfn", FN("foreign"), x=FN("inc"), **f))
            if P.get("invalid", True):
                ops.append(_call(f"with_{n}", "with:kw_bad", x="bad", **f))
                ops.append(_call(f"update_{n}", "update:kw_bad", x="bad", **f))
                ops.append(_call(f"update_{n}", "update:kw_second_bad", x=4, ys="bad", **f))
                ops.append(_call(f"transform_{n}", "transform:attrfn_second_bad", x=FN("inc"), ys=FN("bad"), **f))
                ops.append(_call(f"with_{n}", "with:kw_unknown", nope=1, **f))
                ops.append(_call(f"transform_{n}", "transform:attrfn_bad", x=FN("bad"), **f))
        ops.append(_call(f"update_{n}", "update:conf", conf[-1], **f))
        if K.get("nested") and a.get("lookup"):
            ops.append(_call(f"with_{n}", "with:lookup", "tbl", **f))
            ops.append(_call(f"with_{n}", "with:lookup+kw", "tbl", x=9, **f))
            ops.append(_call(f"update_{n}", "update:lookup+kw", "tbl", x=9, **f))
            ops.append(_call(f"transform_{n}", "transform:attrfn2", x=FN("inc"), ys=FN("same"), **f))
            if P.get("invalid", True):
                ops.append(_call(f"with_{n}", "with:lookup+kw_second_bad", "tbl", x=9, ys="bad", **f))
        if K.get("nested"):
            ops.append(_call(f"update_{n}", "update:noargs", **f))
            ops.append(_call(f"transform_{n}", "transform:noargs", **f))
        if bad:
            ops.append(_call(f"update_{n}", "update:bad", bad[0], **f))
        fns = ["inc", "same", "ident", "shallow", "mutret"] + (["bad", "missing"] if P.get("invalid", True) else []) + (["raise"] if P.get("raising", False) else [])
        for fn in fns:
            ops.append(_call(f"transform_{n}", f"transform:{fn}", FN(fn), **f))
        # an explicit None transform ("nothing to do"): the derived copy still must not alias the receiver's value
        ops.append(_call(f"transform_{n}", "transform:none", None, **f))
        ops.append(_call(f"reset_{n}", "reset_attr", **f))
    if P.get("iffalse", True):
        ops.append(_call(f"with_{n}", "with:if_false", conf[0], _if=False))
        ops.append(_call(f"reset_{n}", "reset_attr:if_false", _if=False))
    return ops


def element_ops(n, K, a, obj, P):
    ops = []
    if "item" not in K:
        return ops
    it = K["item"]
    kind = a["kind"]
    inpl = P.get("inplace", (False, True))
    items = list(K["items"])
    bad_items = list(K.get("bad_items", [])) if P.get("invalid", True) else []
    if P.get("small"):
        items, bad_items = items[:2], bad_items[:1]
    ln = current_len(obj, n)
    nested = K.get("nested_item")
    for ip in inpl:
        f = _flags(ip)
        if kind in G.SEQ_KINDS:
            idxs = list(range(-ln - 1, ln + 2)) if not P.get("small") else sorted({0, -1, ln, ln + 1})
            for x in items + bad_items:
                shape = "conf" if x in items else "bad"
                ops.append(_call(f"with_{it}", f"with_item:append:{shape}", x, **f))
            for i in idxs:
                ops.append(_call(f"with_{it}", "with_item:index", items[0], _index=i, **f))
                ops.append(_call(f"with_{it}", "with_item:insert", items[-1], _index=i, _insert=True, **f))
            for x in bad_items[:1]:
                ops.append(_call(f"with_{it}", "with_item:index:bad", x, _index=0, **f))
                ops.append(_call(f"with_{it}", "with_item:insert:bad", x, _index=0, _insert=True, **f))
                ops.append(_call(f"update_{it}", "update_item:index:bad", 0, x, _by_index=True, **f))
            if nested == "Leaf" and a.get("lookup"):
                ops.append(_call(f"with_{it}", "with_item:lookup", "tbl", **f))
                ops.append(_call(f"with_{it}", "with_item:lookup+kw", "tbl", x=9, **f))
                if P.get("invalid", True):
                    ops.append(_call(f"with_{it}", "with_item:lookup+kw_second_bad", "tbl", x=9, ys="bad", **f))
            if nested:
                kwn = {"x": 3} if nested == "Leaf" else {"key": "k", "n": 3}
                ops.append(_call(f"with_{it}", "with_item:kw", **kwn, **f))
                if P.get("value_plus_kw", True):
                    vk = {"x": 6} if nested == "Leaf" else {"n": 6}
                    ops.append(_call(f"with_{it}", "with_item:value+kw", items[1], **vk, **f))
                    if ln:
                        ops.append(_call(f"update_{it}", "update_item:value+kw", 0, items[1], _by_index=True, **vk, **f))
                        ops.append(_call(f"with_{it}", "with_item:alias_existing", ["elem", n, 0], **f))
                        ops.append(_call(f"with_{it}", "with_item:alias_existing+kw", ["elem", n, 0], **vk, **f))
                if ln:
                    up = {"x": 4} if nested == "Leaf" else {"n": 4}
                    ops.append(_call(f"update_{it}", "update_item:kw", 0, **up, **f))
                    ops.append(_call(f"transform_{it}", "transform_item:attrfn", 0, **{("x" if nested == "Leaf" else "n"): FN("inc")}, **f))
                    ops.append(_call(f"transform_{it}", "transform_item:ident+attrfn", 0, FN("ident"), **{("x" if nested == "Leaf" else "n"): FN("inc")}, **f))
                    if nested == "Keyed":
                        ops.append(_call(f"update_{it}", "update_item:key_kw", "a", n=5, **f))
                        ops.append(_call(f"without_{it}", "without_item:key", "a", **f))
                        ops.append(_call(f"update_{it}", "update_item:dupkey", 0, key="b", **f))
            for i in idxs:
                ops.append(_call(f"transform_{it}", "transform_item:index", i, FN("inc"), _by_index=True, **f))
                ops.append(_call(f"without_{it}", "without_item:index", i, _by_index=True, **f))
                ops.append(_call(f"update_{it}", "update_item:index", i, items[-1], _by_index=True, **f))
            for x in items:
                ops.append(_call(f"transform_{it}", "transform_item:default", x, FN("inc"), **f))
                ops.append(_call(f"without_{it}", "without_item:default", x, **f))
                ops.append(_call(f"without_{it}", "without_item:value", x, _by_index=False, **f))
                ops.append(_call(f"transform_{it}", "transform_item:value", x, FN("inc"), _by_index=False, **f))
                ops.append(_call(f"update_{it}", "update_item:default", x, items[0], **f))
            if P.get("invalid", True):
                ops.append(_call(f"transform_{it}", "transform_item:bad", 0, FN("bad"), _by_index=True, **f))
                ops.append(_call(f"transform_{it}", "transform_item:eqbad", 0, FN("eqbad"), _by_index=True, **f))
                if P.get("raising"):
                    ops.append(_call(f"transform_{it}", "transform_item:raise", 0, FN("raise"), _by_index=True, **f))
        elif kind in G.MAP_KINDS:
            keys = list(K["keys"])
            bad_keys = list(K.get("bad_keys", [])) if P.get("invalid", True) else []
            for k in keys:
                for x in items[:2]:
                    ops.append(_call(f"with_{it}", "with_item:kv", k, x, **f))
                ops.append(_call(f"update_{it}", "update_item:kv", k, items[-1], **f))
                ops.append(_call(f"transform_{it}", "transform_item:key", k, FN("inc"), **f))
                ops.append(_call(f"without_{it}", "without_item:key", k, **f))
            for k in bad_keys:
                ops.append(_call(f"with_{it}", "with_item:bad_key", k, items[0], **f))
            for x in bad_items:
                ops.append(_call(f"with_{it}", "with_item:bad_value", keys[0], x, **f))
            if nested:
                kwn = {"x": 3} if nested == "Leaf" else {"key": "k", "n": 3}
                ops.append(_call(f"with_{it}", "with_item:kw", keys[0], **kwn, **f))
                up = {"x": 4} if nested == "Leaf" else {"n": 4}
                ops.append(_call(f"update_{it}", "update_item:kw", keys[0], **up, **f))
                ops.append(_call(f"transform_{it}", "transform_item:attrfn", keys[0], **{("x" if nested == "Leaf" else "n"): FN("inc")}, **f))
            if P.get("invalid", True):
                ops.append(_call(f"transform_{it}", "transform_item:bad", keys[0], FN("bad"), **f))
                if P.get("raising"):
                    ops.append(_call(f"transform_{it}", "transform_item:raise", keys[0], FN("raise"), **f))
        else:  # sets
            for x in items + bad_items:
                shape = "conf" if x in items else "bad"
                ops.append(_call(f"with_{it}", f"with_item:add:{shape}", x, **f))
            for x in items:
                ops.append(_call(f"transform_{it}", "transform_item:value", x, FN("inc"), **f))
                ops.append(_call(f"without_{it}", "without_item:value", x, **f))
                ops.append(_call(f"update_{it}", "update_item:value", x, items[-1], **f))
            if nested:
                ops.append(_call(f"with_{it}", "with_item:kw", key="k", n=3, **f))
                ops.append(_call(f"update_{it}", "update_item:kw", "a", n=4, **f))
                ops.append(_call(f"transform_{it}", "transform_item:attrfn", "a", n=FN("inc"), **f))
                ops.append(_call(f"update_{it}", "update_item:dupkey", "a", key="b", **f))
            if P.get("invalid", True):
                ops.append(_call(f"transform_{it}", "transform_item:bad", items[0], FN("bad"), **f))
                for x in items[:2]:
                    ops.append(_call(f"transform_{it}", "transform_item:eqbad", x, FN("eqbad"), **f))
                if kind == "tags":
                    ops.append(_call(f"update_{it}", "update_item:eqbad", items[0], float(items[0]) if isinstance(items[0], int) else 1.0, **f))
                if P.get("raising"):
                    ops.append(_call(f"transform_{it}", "transform_item:raise", items[0], FN("raise"), **f))
    if P.get("iffalse", True):
        args = [K["keys"][0], items[0]] if kind in G.MAP_KINDS else [items[0]]
        ops.append(_call(f"with_{it}", "with_item:if_false", *args, _if=False))
    return ops


def assign_ops(n, K, a, obj, P):
    ops = []
    conf = list(K["conf"])
    bad = list(K["bad"]) if P.get("invalid", True) else []
    if P.get("small"):
        conf = [conf[i] for i in K["small_conf"]] if "small_conf" in K else conf[:1] + conf[-1:]
        bad = bad[:1] + bad[1:][-2:]  # (first + the last two: a Dict kind lists a bad-KEY and a bad-VALUE dict, both are kept)
    for v in conf:
        ops.append({"op": "set", "attr": n, "value": v, "shape": "set:conf"})
    for v in bad:
        ops.append({"op": "set", "attr": n, "value": v, "shape": "set:bad"})
    ops.append({"op": "del", "attr": n, "shape": "del"})
    return ops


def toplevel_ops(rec, obj, P):
    ops = []
    tab = attr_table(rec)
    inpl = P.get("inplace", (False, True))
    for ip in inpl:
        f = _flags(ip)
        for n, K, a in tab:
            ops.append(_call("update", "update:one", **{n: K["conf"][-1]}, **f))
            ops.append(_call("transform", "transform:one", **{n: FN("inc")}, **f))
            if "item" in K or K.get("nested"):
                # an attribute transform that builds a new container around the very elements it was given
                ops.append(_call("transform", "transform:one_shallow", **{n: FN("shallow")}, **f))
            if P.get("invalid", True) and K["bad"]:
                ops.append(_call("update", "update:one_bad", **{n: K["bad"][0]}, **f))
                ops.append(_call("transform", "transform:one_bad", **{n: FN("bad")}, **f))
                if P.get("raising"):
                    ops.append(_call("transform", "transform:one_raise", **{n: FN("raise")}, **f))
        # ordered pairs with the failing one second (partial commits become visible)
        for (n1, K1, _), (n2, K2, _) in itertools.permutations(tab, 2):
            ops.append(_call("update", "update:pair", **{n1: K1["conf"][-1], n2: K2["conf"][-1]}, **f))
            ops.append(_call("transform", "transform:pair", **{n1: FN("inc"), n2: FN("same")}, **f))
            if P.get("invalid", True) and K2["bad"]:
                ops.append(_call("update", "update:pair_second_bad", **{n1: K1["conf"][-1], n2: K2["bad"][0]}, **f))
                ops.append(_call("transform", "transform:pair_second_bad", **{n1: FN("inc"), n2: FN("bad")}, **f))
                if P.get("raising"):
                    ops.append(_call("transform", "transform:pair_second_raise", **{n1: FN("inc"), n2: FN("raise")}, **f))
        ops.append(_call("reset", "reset", **f))
        if P.get("sentinels", True):
            ops.append(_call("update", "update:one_UNCHANGED", **{tab[0][0]: ["UNCHANGED"]}, **f))
            ops.append(_call("update", "update:one_MISSING", **{tab[-1][0]: ["MISSING"]}, **f))
        ops.append(_call("transform", "transform:ident+attrfn", FN("ident"), **{tab[0][0]: FN("inc")}, **f))
        if P.get("value_plus_kw", True):
            n0, K0, _ = tab[0]
            ops.append(_call("update", "update:newvalue+kw", ["inst", {}] if not rec.get("opts", {}).get("key") else ["inst", {rec["opts"]["key"]: next(K for n, K, a in tab if n == rec["opts"]["key"])["conf"][-1]}],
                             **{n0: K0["conf"][-1]}, **f))
        if P.get("invalid", True):
            ops.append(_call("update", "update:unknown_kw", nope=1, **f))
    if P.get("iffalse", True):
        ops.append(_call("update", "update:if_false", _if=False, **{tab[0][0]: tab[0][1]["conf"][0]}))
        ops.append(_call("reset", "reset:if_false", _if=False))
    return ops


def ctor_kwargs_variants(rec, P):
    """constructor keyword sets: none, each attr conforming, each attr non-conforming"""
    tab = attr_table(rec)
    key = rec.get("opts", {}).get("key")
    base = {}
    if key:
        kk = next(K for n, K, a in tab if n == key)
        base = {key: kk["conf"][-1]}
    out = [("new:defaults", dict(base))]
    for n, K, a in tab:
        if a.get("lookup"):
            out.append(("new:lookup", dict(base, **{n: ["list", ["tbl"]] if "item" in K else "tbl"})))
    for n, K, a in tab:
        if a.get("default") == "attr_noinit":
            continue  # init=False: not a constructor keyword
        cs = K["conf"][:4] if not P.get("small") else K["conf"][:2] + [v for v in K["conf"][-1:] if v not in K["conf"][:2]]
        for v in cs:
            out.append(("new:conf", dict(base, **{n: v})))
        if P.get("foreign_containers") and "item" in K:
            # the right elements in the WRONG container (a tuple for a list / set attribute, a plain list for a keyed container):
            # the constructor rebuilds the container - the elements are constructor arguments like any other
            last = K["conf"][-1]
            if isinstance(last, list) and len(last) == 2 and isinstance(last[1], list) and last[0] in ("list", "set", "KeyedList", "KeyedSet"):
                out.append(("new:foreign_container", dict(base, **{n: ["tuple" if last[0] in ("list", "set") else "list", last[1]]})))
        if P.get("invalid", True):
            for v in (K["bad"][:1] + K["bad"][1:][-2:] if P.get("small") else K["bad"][:3]):
                out.append(("new:bad", dict(base, **{n: v})))
    if P.get("invalid", True):
        out.append(("new:unknown_kw", dict(base, nope=1)))
    return out


def gen_ops(rec, world, P):
    """the alphabet applicable in the current state"""
    ops = []
    obj = world.obj
    for n, K, a in attr_table(rec):
        if P.get("scalar", True):
            ops += scalar_ops(n, K, a, obj, P)
        if P.get("element", True):
            ops += element_ops(n, K, a, obj, P)
        if P.get("assign", True):
            ops += assign_ops(n, K, a, obj, P)
    for a1, a2 in rec.get("opts", {}).get("alias_pairs", []):
        if a1 in vars(obj):
            for ip in P.get("inplace", (False, True)):
                ops.append(_call(f"with_{a2}", "with:alias_attr", ["attr", a1], **_flags(ip)))
            if P.get("assign", True):
                ops.append({"op": "set", "attr": a2, "value": ["attr", a1], "shape": "set:alias_attr"})
    if P.get("toplevel", True):
        ops += toplevel_ops(rec, obj, P)
    if P.get("deepcopy", True):
        ops.append({"op": "deepcopy", "shape": "deepcopy"})
    if P.get("ctor", False):
        for shape, kw in ctor_kwargs_variants(rec, P):
            ops.append({"op": "new", "kw": kw, "t": 0, "shape": shape})
    return ops


def initial_histories(rec, P):
    """constructor calls that start a history (state-building transitions)"""
    out = []
    for shape, kw in ctor_kwargs_variants(rec, dict(P, invalid=False)):
        out.append(({"op": "new", "kw": kw, "shape": shape},))
    return out


def op_label(op):
    return op.get("shape", op["op"])


def strip(op):
    return {k: v for k, v in op.items()}
