"""
Shared runner machinery for the /verif model-checking checks.

* environment ownership (PYTHONHASHSEED=0 re-exec, import spec_classes from the tree under test)
* `Run`: counters, violation / known-finding bookkeeping, replay artefacts, evidence file
* `pmap`: fork-based sharding over the 16 cores (workers return small JSON-able records)

A *case* is always a JSON-serialisable description of one execution (class record, history,
operation, fault or schedule).  Every property module exposes `run_case(case) -> [violation]`
so that a violation can be replayed without the explorer (`./check <ID> --replay <file>`).
"""
from __future__ import annotations

import hashlib
import json
import multiprocessing
import os
import sys
import time
import traceback

VERIF = os.path.dirname(os.path.dirname(os.path.abspath(__file__)))
REPO_ROOT = os.environ.get("VERIF_REPO_ROOT", "/repo")
GUARD = "SPEC_CLASSES_VERIF"
# evidence/ and replays/ are written under OUT (default /verif); mutation experiments redirect it
OUT = os.environ.get("VERIF_OUT", VERIF)


# ------------------------------------------------------------------------------------------------
# environment
# ------------------------------------------------------------------------------------------------
def own_environment():
    """Re-exec with PYTHONHASHSEED=0 (set iteration order of str elements is the only hash-order
    dependence in scope) and make sure `spec_classes` is imported from the tree under test."""
    if os.environ.get("PYTHONHASHSEED") != "0":
        os.environ["PYTHONHASHSEED"] = "0"
        os.execv(sys.executable, [sys.executable] + sys.argv)
    os.environ.setdefault(GUARD, "1")
    root = os.path.abspath(REPO_ROOT)
    if root in sys.path:
        sys.path.remove(root)
    sys.path.insert(0, root)
    sys.dont_write_bytecode = True
    import spec_classes  # noqa

    f = os.path.abspath(spec_classes.__file__)
    if not f.startswith(root + os.sep):
        print(f"HARNESS-ERROR: spec_classes imported from {f}, expected under {root}")
        sys.exit(2)
    import warnings

    warnings.simplefilter("ignore")


def seed() -> int:
    try:
        return int(os.environ.get("VERIF_SEED", "0"))
    except ValueError:
        return 0


def ncpu() -> int:
    try:
        return max(1, int(os.environ.get("VERIF_WORKERS", "0")) or min(16, os.cpu_count() or 1))
    except ValueError:
        return 16


# ------------------------------------------------------------------------------------------------
# JSON helpers
# ------------------------------------------------------------------------------------------------
def jsonable(x, depth=0):
    if depth > 40:
        return repr(x)[:200]
    if x is None or isinstance(x, (bool, int, str)):
        return x
    if isinstance(x, float):
        return x if x == x and abs(x) != float("inf") else repr(x)
    if isinstance(x, (list, tuple)):
        return [jsonable(v, depth + 1) for v in x]
    if isinstance(x, dict):
        return {str(k): jsonable(v, depth + 1) for k, v in x.items()}
    if isinstance(x, (set, frozenset)):
        return sorted((jsonable(v, depth + 1) for v in x), key=repr)
    return repr(x)[:300]


def short_hash(obj) -> str:
    return hashlib.sha1(json.dumps(jsonable(obj), sort_keys=True).encode()).hexdigest()[:12]


# ------------------------------------------------------------------------------------------------
# known findings
# ------------------------------------------------------------------------------------------------
class Findings:
    """`/verif/known_findings.json`: list of entries
        {"property": "C13", "status": "open"|"fixed", "match": {sig-key: value | [values]},
         "what_fails": "...", "commit": "..."}
    A violation matches an *open* entry when every key in `match` is present in the violation's
    `sig` with an equal value (or a value in the listed alternatives).  `fixed` entries suppress
    nothing.  The file is never written at run time."""

    def __init__(self, path=None):
        path = path or os.path.join(VERIF, "known_findings.json")
        try:
            with open(path) as fh:
                self.entries = json.load(fh).get("findings", [])
        except FileNotFoundError:
            self.entries = []

    def match(self, prop, sig):
        for i, e in enumerate(self.entries):
            if e.get("property") != prop or e.get("status") != "open":
                continue
            ok = True
            for k, v in e.get("match", {}).items():
                sv = sig.get(k, "<absent>")
                if isinstance(v, list):
                    if sv not in v:
                        ok = False
                        break
                elif sv != v:
                    ok = False
                    break
            if ok:
                return i, e
        return None, None


# ------------------------------------------------------------------------------------------------
# violations
# ------------------------------------------------------------------------------------------------
def violation(prop, sig, detail, case):
    """sig: small flat dict classifying the failure (used for known-finding matching and for
    de-duplication); detail: expected vs observed; case: replayable description."""
    return {"property": prop, "sig": jsonable(sig), "detail": jsonable(detail), "case": jsonable(case)}


class Run:
    def __init__(self, prop, tier, module=None):
        self.prop = prop
        self.tier = tier
        self.seed = seed()
        self.t0 = time.time()
        self.module = module
        self.findings = Findings()
        self.cov = {
            "states": 0,
            "transitions": 0,
            "traces_validated_against_impl": 0,
            "evaluations": 0,
            "distinct_nontrivial": 0,
            "samples": [],
            "exhaustive": True,
        }
        self.extra = {}
        self.assumptions = []
        self.violations = []  # unlisted
        self.known_hits = {}  # index -> count
        self._seen_sigs = set()
        self.n_violations_total = 0
        self.harness_errors = []

    # ---- counters -----------------------------------------------------------------------------
    def add(self, **kw):
        for k, v in kw.items():
            if k == "samples":
                for s in v:
                    if len(self.cov["samples"]) < 12:
                        self.cov["samples"].append(jsonable(s))
            elif k == "exhaustive":
                self.cov["exhaustive"] = self.cov["exhaustive"] and bool(v)
            elif isinstance(v, (int, float)) and not isinstance(v, bool):
                self.cov[k] = self.cov.get(k, 0) + v
            else:
                self.extra[k] = v

    def merge(self, rec):
        """merge a worker record {counters..., violations: [...], errors: [...]}"""
        if rec is None:
            return
        for v in rec.pop("violations", []):
            self.report(v)
        for e in rec.pop("errors", []):
            self.harness_errors.append(e)
        ex = rec.pop("extra", None)
        if ex:
            for k, v in ex.items():
                if isinstance(v, dict) and isinstance(self.extra.get(k), dict):
                    for kk, vv in v.items():
                        if isinstance(vv, (int, float)) and isinstance(self.extra[k].get(kk), (int, float)):
                            self.extra[k][kk] += vv
                        else:
                            self.extra[k].setdefault(kk, vv)
                elif isinstance(v, (int, float)) and isinstance(self.extra.get(k), (int, float)):
                    self.extra[k] = max(self.extra[k], v) if k.startswith("max_") else self.extra[k] + v
                elif isinstance(v, list) and isinstance(self.extra.get(k), list):
                    for it in v:
                        if it not in self.extra[k]:
                            self.extra[k].append(it)
                else:
                    self.extra.setdefault(k, v)
        self.add(**rec)

    # ---- violations ---------------------------------------------------------------------------
    def report(self, v):
        self.n_violations_total += 1
        idx, entry = self.findings.match(self.prop, v["sig"])
        if entry is not None:
            self.known_hits[idx] = self.known_hits.get(idx, 0) + 1
            return
        key = short_hash(v["sig"])
        if key in self._seen_sigs and len(self.violations) >= 40:
            return
        self._seen_sigs.add(key)
        if len(self.violations) < 200:
            self.violations.append(v)

    # ---- finish -------------------------------------------------------------------------------
    def finish(self):
        wall = time.time() - self.t0
        if self.harness_errors:
            for e in self.harness_errors[:5]:
                print("HARNESS-ERROR:", e)
            self._write_evidence(wall, failed=True)
            return 2
        # confirm violations by replay (twice, identical) before they are believed
        confirmed = []
        unconfirmed = []
        n_task_replays = 0
        printed = set()
        t_confirm = time.time()
        for v in self.violations:
            if len(unconfirmed) >= 40 and not confirmed:
                break
            if confirmed and time.time() - t_confirm > 120:
                break  # replays of this kind are slow (e.g. each one waits for a stall to be declared): enough have been confirmed
            if self.module is not None and hasattr(self.module, "run_case") and len(confirmed) < 25:
                try:
                    # (in fresh forks, like the tasks themselves: the parent process never executes library operations,
                    # so that every fork starts from the same module-level state)
                    r1 = in_fresh_fork(self.module.run_case, v["case"])
                    r2 = in_fresh_fork(self.module.run_case, v["case"])
                except Exception:
                    print("HARNESS-ERROR: replay of a violation crashed:\n" + traceback.format_exc())
                    self._write_evidence(wall, failed=True)
                    return 2
                s1 = sorted(short_hash(x["sig"]) for x in r1)
                s2 = sorted(short_hash(x["sig"]) for x in r2)
                if s1 != s2 or short_hash(v["sig"]) not in s1:
                    # Not reproduced by its own history alone: it needs state built up by earlier transitions of the
                    # same task (a module- or class-level memo of the library).  Every task runs in its own fresh fork,
                    # so the whole task is the replayable unit: believed iff two fresh runs of the task report it again.
                    if n_task_replays < 6 and task_replay(v):
                        n_task_replays += 1
                        v["detail"]["replay_unit"] = "task (history dependent: needs state left behind by earlier transitions of the same task)"
                        confirmed.append(v)
                        continue
                    n_task_replays += 1
                    unconfirmed.append((v, s1, s2))
                    continue
            confirmed.append(v)
        if unconfirmed and not confirmed:
            v, s1, s2 = unconfirmed[0]
            print(
                "HARNESS-ERROR: violation did not replay deterministically: "
                + json.dumps(v["sig"])
                + f" first={s1} second={s2} ({len(unconfirmed)} such)"
            )
            self._write_evidence(wall, failed=True)
            return 2
        self.extra["unconfirmed_violations"] = len(unconfirmed)
        if unconfirmed:
            print(f"NOTE: {len(unconfirmed)} further violation(s) seen during the exploration did not replay on their own and are not reported")
        for idx, n in sorted(self.known_hits.items()):
            e = self.findings.entries[idx]
            print(f"KNOWN-FINDING: property={self.prop} {e.get('what_fails', '')} [{n} matching cases]")
        rdir = os.path.join(OUT, "replays", self.prop)
        for v in confirmed:
            h = short_hash(v["sig"])
            if h in printed and len(printed) >= 10:
                continue
            os.makedirs(rdir, exist_ok=True)
            path = os.path.join(rdir, h + "-" + short_hash(v["case"]) + ".json")
            with open(path, "w") as fh:
                json.dump(v, fh, indent=1, sort_keys=True)
            if len(printed) < 30:
                print(f"VIOLATION property={self.prop} replay={path}")
                print("   sig=" + json.dumps(v["sig"], sort_keys=True)[:600])
                print("   detail=" + json.dumps(v["detail"], sort_keys=True)[:600])
            printed.add(h)
        self._write_evidence(wall, failed=bool(confirmed))
        c = self.cov
        print(
            f"[{self.prop} {self.tier}] states={c['states']} transitions={c['transitions']} "
            f"validated={c['traces_validated_against_impl']} evaluations={c['evaluations']} "
            f"nontrivial={c['distinct_nontrivial']} exhaustive={c['exhaustive']} "
            f"violations={len(confirmed)} known={sum(self.known_hits.values())} wall={wall:.1f}s"
        )
        return 1 if confirmed else 0

    def _write_evidence(self, wall, failed):
        cov = dict(self.cov)
        cov.update(self.extra)
        cov["known_finding_cases"] = sum(self.known_hits.values())
        if not cov["samples"]:
            cov["samples"] = ["<none recorded>"]
        cov.setdefault("rule", "see DESIGN.md")
        ev = {
            "property_id": self.prop,
            "tier": self.tier,
            "seed": self.seed,
            "level": "model_checking",
            "coverage": cov,
            "assumptions": self.assumptions,
            "wall_s": round(wall, 2),
            "violations": len(self.violations),
        }
        os.makedirs(os.path.join(OUT, "evidence"), exist_ok=True)
        tmp = os.path.join(OUT, "evidence", f".{self.prop}.json.tmp")
        with open(tmp, "w") as fh:
            json.dump(jsonable(ev), fh, indent=1, sort_keys=True)
        os.replace(tmp, os.path.join(OUT, "evidence", f"{self.prop}.json"))


# ------------------------------------------------------------------------------------------------
# parallel map
# ------------------------------------------------------------------------------------------------
def _call(args):
    fn, item = args
    try:
        return fn(item)
    except BaseException:
        return {"errors": [f"worker crashed on {jsonable(item)!r:.300}:\n{traceback.format_exc()}"]}


def pmap(fn, items, workers=None, chunksize=1):
    """Run fn(item) for each item in forked workers; yields results as they complete.
    `fn` must be a module-level function.  Order of hand-out is permuted by VERIF_SEED (never
    which items are run)."""
    items = list(items)
    workers = workers or ncpu()
    s = seed()
    if s:
        import random

        random.Random(s).shuffle(items)
    if workers <= 1 or len(items) <= 1:
        for it in items:
            yield _call((fn, it))
        return
    ctx = multiprocessing.get_context("fork")
    # One fresh fork of the (idle) parent per task: module- and class-level state of the library that a task builds
    # up (memo tables, lazily built singletons) can never leak into another task, so what a task reports is a function
    # of the task alone - and can be reproduced by running that task again (see Run.task_replay).
    with ctx.Pool(min(workers, len(items)), maxtasksperchild=1) as pool:
        for r in pool.imap_unordered(_call_tagged, [(fn, it) for it in items], chunksize):
            yield r


def _call_tagged(args):
    fn, item = args
    rec = _call(args)
    if isinstance(rec, dict) and rec.get("violations"):
        tag = {"fn": fn.__module__ + ":" + fn.__name__, "item": jsonable(item)}
        for v in rec["violations"]:
            v.setdefault("_task", tag)
    return rec


def _apply(args):
    fn, a = args
    return fn(*a)


def in_fresh_fork(fn, *a):
    ctx = multiprocessing.get_context("fork")
    with ctx.Pool(1, maxtasksperchild=1) as pool:
        return pool.apply(_apply, ((fn, a),))


def run_task_fresh(tag):
    """run the task a violation came from in a fresh fork; -> its record"""
    import importlib

    modname, fname = tag["fn"].split(":")
    fn = getattr(importlib.import_module(modname), fname)
    ctx = multiprocessing.get_context("fork")
    with ctx.Pool(1, maxtasksperchild=1) as pool:
        return pool.apply(_call, ((fn, tag["item"]),))


def task_replay(v):
    """True iff the task reproduces this very violation (same signature, same case) in two fresh runs"""
    tag = v.get("_task")
    if not tag:
        return False
    want = (short_hash(v["sig"]), short_hash(v["case"]))
    for _ in range(2):
        rec = run_task_fresh(tag)
        got = {(short_hash(x["sig"]), short_hash(x["case"])) for x in rec.get("violations", [])}
        if want not in got:
            return False
    return True


class Counter:
    """small helper used inside workers to build a record"""

    def __init__(self):
        self.rec = {
            "states": 0,
            "transitions": 0,
            "traces_validated_against_impl": 0,
            "evaluations": 0,
            "distinct_nontrivial": 0,
            "samples": [],
            "violations": [],
            "errors": [],
            "extra": {},
        }
        self._nt = set()

    def inc(self, k, n=1):
        self.rec[k] = self.rec.get(k, 0) + n

    def nontrivial(self, key):
        if key not in self._nt:
            self._nt.add(key)
            self.rec["distinct_nontrivial"] += 1

    def sample(self, s, every=1):
        if len(self.rec["samples"]) < 3:
            self.rec["samples"].append(jsonable(s))

    def viol(self, v):
        if len(self.rec["violations"]) < 60:
            self.rec["violations"].append(v)
        else:
            # keep counting distinct signatures
            sigs = {short_hash(x["sig"]) for x in self.rec["violations"]}
            if short_hash(v["sig"]) not in sigs and len(self.rec["violations"]) < 300:
                self.rec["violations"].append(v)

    def outcome(self, name):
        d = self.rec["extra"].setdefault("outcomes", {})
        d[name] = d.get(name, 0) + 1
