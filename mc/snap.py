"""
Snapshots and canonical forms of live object graphs (DESIGN.md 3.5 / 3.1).

* snapshot(roots)       -> Snapshot holding strong references; per node (id, type, shallow content)
* same_graph(pre, post) -> literally the same object graph with equal contents (C01)
* canon(roots)          -> rooted ordered-graph canonical form: structure AND aliasing pattern, no ids
* shared_mutable(a, b)  -> mutable nodes reachable from both
"""
from __future__ import annotations

import types

LEAF_TYPES = (int, float, complex, str, bytes, bool, type(None), type, types.FunctionType, types.BuiltinFunctionType,
              types.ModuleType, types.MethodType, range, type(Ellipsis), type(NotImplemented))


def _is_missing_family(o):
    return isinstance(o, type) and type(o).__name__ == "_MissingType"


def is_spec_instance(o):
    return hasattr(type(o), "__spec_class__") and hasattr(o, "__dict__") and not isinstance(o, type)


def kind_of(o):
    """classify a node: leaf / seq / tuple / map / set / keyedlist / keyedset / spec / obj"""
    if isinstance(o, LEAF_TYPES) or _is_missing_family(o):
        return "leaf"
    tn = type(o).__name__
    if tn == "KeyedList" and hasattr(o, "_list"):
        return "keyedlist"
    if tn == "KeyedSet" and hasattr(o, "_dict"):
        return "keyedset"
    if isinstance(o, list):
        return "seq"
    if isinstance(o, tuple):
        return "tuple"
    if isinstance(o, dict):
        return "map"
    if isinstance(o, (set, frozenset)):
        return "set"
    if is_spec_instance(o):
        return "spec"
    if hasattr(o, "__dict__"):
        return "obj"
    return "leaf"


def leaf_repr(o):
    if isinstance(o, types.MethodType):
        return ("method", o.__func__.__qualname__, id(o.__self__))
    if isinstance(o, (types.FunctionType, types.BuiltinFunctionType)):
        return ("function", getattr(o, "__qualname__", repr(o)), id(o))
    if isinstance(o, types.ModuleType):
        return ("module", o.__name__)
    if isinstance(o, type):
        return ("class", o.__name__)
    return (type(o).__name__, repr(o))


def _sort_key(o):
    return (type(o).__name__, repr(o))


def children(o, k=None):
    """ordered list of (label, child) pairs"""
    k = k or kind_of(o)
    if k in ("seq", "tuple"):
        return [(i, x) for i, x in enumerate(o)]
    if k == "map":
        out = []
        for i, (kk, v) in enumerate(o.items()):
            out.append((("k", i), kk))
            out.append((("v", i), v))
        return out
    if k == "set":
        return [(i, x) for i, x in enumerate(sorted(o, key=_sort_key))]
    if k == "keyedlist":
        return [(i, x) for i, x in enumerate(o._list)] + [(("dict", i), v) for i, (_, v) in enumerate(sorted(o._dict.items(), key=lambda kv: repr(kv[0])))]
    if k == "keyedset":
        return [(i, v) for i, (_, v) in enumerate(sorted(o._dict.items(), key=lambda kv: repr(kv[0])))]
    if k in ("spec", "obj"):
        return sorted(((a, v) for a, v in vars(o).items()), key=lambda kv: kv[0])
    return []


MUTABLE_KINDS = ("seq", "map", "set", "keyedlist", "keyedset", "spec", "obj")


def is_mutable_node(o, k=None):
    k = k or kind_of(o)
    if k == "set":
        return isinstance(o, set)
    if k == "spec":
        try:
            return not type(o).__spec_class__.frozen
        except Exception:
            return True
    return k in MUTABLE_KINDS


class Snapshot:
    def __init__(self, roots):
        self.roots = dict(roots)  # name -> object (strong refs)
        self.nodes = {}  # id -> (kind, typename, shallow)
        self.keep = []  # strong references to every visited node
        for o in self.roots.values():
            self._walk(o)

    def _walk(self, o):
        stack = [o]
        while stack:
            o = stack.pop()
            k = kind_of(o)
            if k == "leaf":
                continue
            if id(o) in self.nodes:
                continue
            ch = children(o, k)
            shallow = []
            for lab, c in ch:
                ck = kind_of(c)
                shallow.append((lab, leaf_repr(c) if ck == "leaf" else ("node", id(c))))
                if ck != "leaf":
                    stack.append(c)
            self.nodes[id(o)] = (k, type(o).__name__, tuple(shallow))
            self.keep.append(o)

    def root_ids(self):
        return {n: (id(o) if kind_of(o) != "leaf" else leaf_repr(o)) for n, o in self.roots.items()}


def same_graph(pre: Snapshot, ignore_new_keys=None):
    """Re-walk the same root objects and compare with `pre`.  Returns list of differences (empty =
    same graph).  `ignore_new_keys(obj, key, value)` may declare a *new* __dict__ entry on a spec
    instance neutral (lazy cache fill, DESIGN.md 3.5)."""
    post = Snapshot(pre.roots)
    diffs = []
    for nid, (k, tn, shallow) in pre.nodes.items():
        if nid not in post.nodes:
            diffs.append(("unreachable_now", tn))
            continue
        k2, tn2, shallow2 = post.nodes[nid]
        if shallow2 == shallow and tn2 == tn:
            continue
        if k == "spec" and ignore_new_keys is not None:
            d1 = dict(shallow)
            d2 = dict(shallow2)
            extra = {a: v for a, v in d2.items() if a not in d1}
            same_rest = all(d2.get(a) == v for a, v in d1.items()) and len(d2) == len(d1) + len(extra)
            if same_rest and extra:
                obj = next(o for o in post.keep if id(o) == nid)
                if all(ignore_new_keys(obj, a) for a in extra):
                    continue
        diffs.append(("changed", tn, _short(shallow), _short(shallow2)))
        if len(diffs) > 5:
            break
    return diffs


def _short(sh):
    return repr(sh)[:300]


def canon(roots, with_types=True):
    """canonical nested structure of everything reachable from the (ordered) roots; repeated
    mutable nodes become back-references, so aliasing patterns are part of the form."""
    index = {}
    keep = []

    def rec(o, depth=0):
        k = kind_of(o)
        if k == "leaf":
            return leaf_repr(o) if not isinstance(o, (types.FunctionType, types.MethodType)) else leaf_repr(o)[:2]
        if depth > 40:
            return ("<deep>",)
        if id(o) in index:
            return ("ref", index[id(o)])
        if k in ("tuple",) or (k == "set" and isinstance(o, frozenset)):
            # immutable containers carry no identity of their own
            return (k, tuple(rec(c, depth + 1) for _, c in children(o, k)))
        index[id(o)] = len(index)
        keep.append(o)
        me = index[id(o)]
        if k == "map":
            items = list(o.items())
            return ("map", me, tuple((rec(kk, depth + 1), rec(v, depth + 1)) for kk, v in items))
        if k == "keyedlist":
            return ("keyedlist", me, tuple(rec(x, depth + 1) for x in o._list),
                    tuple(sorted((repr(kk), rec(v, depth + 1)) for kk, v in o._dict.items())))
        if k == "keyedset":
            # a set has no order: visit (and number) the items in key order, not in storage order
            return ("keyedset", me, tuple((repr(kk), rec(v, depth + 1)) for kk, v in sorted(o._dict.items(), key=lambda kv: repr(kv[0]))))
        if k in ("spec", "obj"):
            return (k, type(o).__name__ if with_types else "", me, tuple((a, rec(v, depth + 1)) for a, v in children(o, k)))
        if k == "set":
            return ("set", me, tuple(sorted((rec(c, depth + 1) for _, c in children(o, k)), key=repr)))
        return (k, me, tuple(rec(c, depth + 1) for _, c in children(o, k)))

    if isinstance(roots, dict):
        return tuple((n, rec(o)) for n, o in roots.items())
    return tuple(rec(o) for o in roots)


def reachable_mutable(o):
    """id -> object for every mutable node reachable from o"""
    out = {}
    seen = set()
    stack = [o]
    while stack:
        x = stack.pop()
        k = kind_of(x)
        if k == "leaf" or id(x) in seen:
            continue
        seen.add(id(x))
        if is_mutable_node(x, k):
            out[id(x)] = x
        for _, c in children(x, k):
            stack.append(c)
    return out


def shared_mutable(a, b):
    ra = reachable_mutable(a)
    rb = reachable_mutable(b)
    return {i: ra[i] for i in ra if i in rb}
