"""Independent structural conformance checker for the attribute kinds of the class grammar.
Never calls spec_classes.utils.type_checking.  `conforms(kind, value, env)` -> (bool, where)."""
from __future__ import annotations


def _int(v):
    return isinstance(v, int)


def _leaf(v, env):
    if not isinstance(v, env.Leaf):
        return False, "not a Leaf"
    d = vars(v)
    if "x" in d and not _int(d["x"]):
        return False, "Leaf.x"
    if "ys" in d and not (isinstance(d["ys"], list) and all(_int(x) for x in d["ys"])):
        return False, "Leaf.ys"
    return True, ""


def _keyed(v, env):
    if not isinstance(v, env.Keyed):
        return False, "not a Keyed"
    d = vars(v)
    if "key" in d and not isinstance(d["key"], str):
        return False, "Keyed.key"
    if "n" in d and not _int(d["n"]):
        return False, "Keyed.n"
    if "zs" in d and not (isinstance(d["zs"], list) and all(_int(x) for x in d["zs"])):
        return False, "Keyed.zs"
    return True, ""


def conforms(kind, v, env):
    if kind == "any":
        return True, ""
    if kind == "int":
        return _int(v), "value"
    if kind == "str":
        return isinstance(v, str), "value"
    if kind == "float":
        return isinstance(v, (int, float)), "value"
    if kind == "optint":
        return v is None or _int(v), "value"
    if kind == "union":
        return isinstance(v, (int, str)), "value"
    if kind == "literal":
        return (isinstance(v, str) and v in ("a", "b")), "value"
    if kind == "bounded":
        return (_int(v) and v >= 0), "value"
    if kind == "even":
        return (_int(v) and not isinstance(v, bool) and v % 2 == 0), "value"
    if kind == "nums":
        if not isinstance(v, list):
            return False, "container"
        return all(_int(x) for x in v), "element"
    if kind == "lits":
        if not isinstance(v, list):
            return False, "container"
        return all(isinstance(x, str) and x in ("a", "b") for x in v), "element"
    if kind == "grids":
        if not isinstance(v, list):
            return False, "container"
        return all(isinstance(x, list) and all(_int(y) for y in x) for x in v), "element"
    if kind == "words":
        if not isinstance(v, list):
            return False, "container"
        return all(isinstance(x, str) for x in v), "element"
    if kind == "scores":
        if not isinstance(v, dict):
            return False, "container"
        if not all(isinstance(k, str) for k in v):
            return False, "key"
        return all(_int(x) for x in v.values()), "value"
    if kind == "tags":
        if not isinstance(v, set):
            return False, "container"
        return all(_int(x) for x in v), "element"
    if kind == "labels":
        if not isinstance(v, set):
            return False, "container"
        return all(isinstance(x, str) for x in v), "element"
    if kind in ("leaf", "fleaf"):
        return _leaf(v, env) if kind == "leaf" else (isinstance(v, env.FLeaf), "value")
    if kind == "kids":
        if not isinstance(v, list):
            return False, "container"
        for x in v:
            ok, w = _leaf(x, env)
            if not ok:
                return False, "element:" + w
        return True, ""
    if kind == "pairs":
        if not isinstance(v, dict):
            return False, "container"
        for k, x in v.items():
            if not isinstance(k, str):
                return False, "key"
            ok, w = _leaf(x, env)
            if not ok:
                return False, "value:" + w
        return True, ""
    if kind == "units":
        if not isinstance(v, list):
            return False, "container"
        for x in v:
            ok, w = _keyed(x, env)
            if not ok:
                return False, "element:" + w
        return True, ""
    if kind == "parts":
        if not isinstance(v, dict):
            return False, "container"
        for k, x in v.items():
            if not isinstance(k, str):
                return False, "key"
            ok, w = _keyed(x, env)
            if not ok:
                return False, "value:" + w
        return True, ""
    if kind in ("links", "marks"):
        want = env.KeyedList if kind == "links" else env.KeyedSet
        if not isinstance(v, want):
            return False, "container"
        for x in v:
            ok, w = _keyed(x, env)
            if not ok:
                return False, "element:" + w
        for k in v.keys():
            if not isinstance(k, str):
                return False, "key"
        return True, ""
    if kind == "fkids":
        return (isinstance(v, list) and all(isinstance(x, env.FLeaf) for x in v)), "element"
    raise ValueError(kind)
