"""
Engine E3 — controlled thread scheduler with iterative preemption bounding (CHESS style).

Thread bodies run on real threads; exactly one holds the baton.  A per-thread `sys.settrace`
function turns every `line` event in the *scheduling files* into a scheduling point where the
explorer decides whether the running thread continues or the baton goes to another enabled
thread.  Library locks are replaced by `CoopRLock` so a preempted lock holder can never hang the
explorer; "no enabled thread" is reported as deadlock immediately.

An execution is fully determined by its list of choices (index into the canonical order of enabled
threads at each point: running thread first if still enabled, then ascending ids); the default
choice is 0.  `explore()` enumerates all executions with at most `bound` preemptions.
"""
from __future__ import annotations

import sys
import threading


class SchedulerAbort(BaseException):
    pass


class ReplayDivergence(Exception):
    pass


_CURRENT = None  # the active Scheduler (one at a time per process)


class CoopRLock:
    """re-entrant lock visible to the scheduler"""

    def __init__(self, *a, **k):
        self.owner = None
        self.count = 0

    def acquire(self, blocking=True, timeout=-1):
        s = _CURRENT
        tid = s.tid() if s is not None else None
        if tid is None:
            # not under the scheduler (set-up code on the main thread): plain re-entrant behaviour
            me = threading.get_ident()
            if self.owner not in (None, ("os", me)):
                raise RuntimeError("CoopRLock contended outside the scheduler")
            self.owner = ("os", me)
            self.count += 1
            return True
        while self.owner is not None and self.owner != tid:
            if not blocking:
                return False
            s.block(tid, self)
        self.owner = tid
        self.count += 1
        return True

    def release(self):
        self.count -= 1
        if self.count <= 0:
            self.count = 0
            self.owner = None
            s = _CURRENT
            if s is not None:
                s.unblock(self)

    def __enter__(self):
        self.acquire()
        return self

    def __exit__(self, *a):
        self.release()

    def _is_owned(self):
        return self.owner is not None


STALL_SECONDS = 10


class Point:
    __slots__ = ("running", "order", "choice", "running_enabled", "where")

    def __init__(self, running, order, choice, running_enabled, where):
        self.running, self.order, self.choice, self.running_enabled, self.where = running, order, choice, running_enabled, where


class Scheduler:
    def __init__(self, bodies, sched_files, prefix=(), horizon=50000, opcode_funcs=(), clamp=False, only_quals=()):
        self.bodies = bodies
        self.n = len(bodies)
        self.files = tuple(sched_files)
        self.prefix = list(prefix)
        self.clamp = clamp  # random walks: out-of-range choices wrap instead of diverging
        self.horizon = horizon
        self.opcode_funcs = set(opcode_funcs)
        self.only_quals = tuple(only_quals)  # window: scheduling points only inside functions whose qualified name starts so
        self.points = []
        self.state = {i: "ready" for i in range(self.n)}
        self.waiting_on = {}
        self.sems = [threading.Semaphore(0) for _ in range(self.n)]
        self.main_sem = threading.Semaphore(0)
        self.local = threading.local()
        self.results = [None] * self.n
        self.errors = [None] * self.n
        self.deadlock = False
        self.stuck = False
        self.abort = False
        self.horizon_hit = False
        self.divergence = None

    # ---- identification ----------------------------------------------------------------------
    def tid(self):
        return getattr(self.local, "tid", None)

    # ---- decisions ---------------------------------------------------------------------------
    def _decide(self, running, running_enabled, where):
        enabled = sorted(t for t, st in self.state.items() if st == "ready")
        if running_enabled:
            order = [running] + [t for t in enabled if t != running]
        else:
            order = enabled
        if not order:
            return None
        i = len(self.points)
        choice = self.prefix[i] if i < len(self.prefix) else 0
        if self.clamp:
            choice %= len(order)
        if choice >= len(order):
            self.divergence = f"choice {choice} out of range at point {i} (enabled {order})"
            self.abort = True
            raise SchedulerAbort()
        self.points.append(Point(running, tuple(order), choice, running_enabled, where))
        if len(self.points) > self.horizon:
            self.horizon_hit = True
            self.abort = True
            raise SchedulerAbort()
        return order[choice]

    def _handoff(self, me, nxt):
        """give the baton to nxt and wait until it comes back"""
        self.sems[nxt].release()
        self.sems[me].acquire()
        if self.abort:
            raise SchedulerAbort()

    def point(self, where=None):
        me = self.tid()
        if me is None or self.abort:
            return
        nxt = self._decide(me, True, where)
        if nxt is not None and nxt != me:
            self._handoff(me, nxt)

    def block(self, me, lock):
        self.state[me] = "blocked"
        self.waiting_on[me] = lock
        nxt = self._decide(me, False, "blocked")
        if nxt is None:
            self.deadlock = True
            self.abort = True
            self.main_sem.release()
            raise SchedulerAbort()
        self._handoff(me, nxt)

    def unblock(self, lock):
        for t, l in list(self.waiting_on.items()):
            if l is lock:
                self.state[t] = "ready"
                del self.waiting_on[t]

    def _finish(self, me):
        self.state[me] = "done"
        if self.abort:
            self.main_sem.release()
            return
        if all(st == "done" for st in self.state.values()):
            self.main_sem.release()
            return
        try:
            nxt = self._decide(me, False, "finished")
        except SchedulerAbort:
            self.main_sem.release()
            return
        if nxt is None:
            self.deadlock = True
            self.abort = True
            self.main_sem.release()
            return
        self.sems[nxt].release()

    # ---- tracing -----------------------------------------------------------------------------
    def _global_trace(self, frame, event, arg):
        if event == "call":
            fn = frame.f_code.co_filename
            for f in self.files:
                if fn.endswith(f):
                    if self.only_quals and not getattr(frame.f_code, "co_qualname", frame.f_code.co_name).startswith(self.only_quals):
                        return None
                    if frame.f_code.co_name in self.opcode_funcs:
                        frame.f_trace_opcodes = True
                    return self._local_trace
        return None

    def _local_trace(self, frame, event, arg):
        if event == "line" or event == "opcode":
            self.point((frame.f_code.co_filename.rsplit("/", 1)[-1], frame.f_lineno, frame.f_code.co_name))
        return self._local_trace

    # ---- running -----------------------------------------------------------------------------
    def _thread_main(self, i):
        self.local.tid = i
        self.sems[i].acquire()
        if self.abort:
            self._finish(i)
            return
        sys.settrace(self._global_trace)
        try:
            self.results[i] = self.bodies[i]()
        except SchedulerAbort:
            pass
        except BaseException as e:  # recorded as an observation of this thread
            self.errors[i] = e
        finally:
            sys.settrace(None)
        self._finish(i)

    def run(self):
        global _CURRENT
        _CURRENT = self
        threads = [threading.Thread(target=self._thread_main, args=(i,), daemon=True) for i in range(self.n)]
        for t in threads:
            t.start()
        try:
            first = self._decide(None, False, "start")
        except SchedulerAbort:
            first = None
        if first is not None:
            self.sems[first].release()
            if not self.main_sem.acquire(timeout=STALL_SECONDS):
                # No thread came back to the scheduler: one of them is blocked on something the scheduler does not own
                # (a real lock taken by the code under test while its holder is parked).  With every other thread parked
                # that wait can never end: a deadlock of the program under this schedule, reported as such.
                self.deadlock = True
                self.stuck = True
        # wake everything that is still parked so the threads can unwind
        if self.abort or self.deadlock:
            self.abort = True
            for s in self.sems:
                s.release()
        for t in threads:
            t.join(timeout=5 if self.stuck else 120)
        alive = [t for t in threads if t.is_alive()]
        _CURRENT = None
        if alive and not self.stuck:
            raise RuntimeError("scheduler: threads did not unwind")
        return self  # (after a stall, a thread blocked on a lock the scheduler does not own may be left behind: daemon thread)

    # ---- bookkeeping -------------------------------------------------------------------------
    def choices(self):
        return [p.choice for p in self.points]

    def preemptions_before(self, i):
        c = 0
        for p in self.points[:i]:
            if p.running_enabled and p.choice != 0:
                c += 1
        return c


def explore(make_bodies, sched_files, bound, on_execution, opcode_funcs=(), max_executions=None, setup=None, shard=None,
            verify_every=200, only_quals=()):
    """Enumerate every schedule with at most `bound` preemptions.
    make_bodies() -> (bodies, ctx) builds fresh thread bodies (fresh classes / state) per execution;
    on_execution(sched, ctx) judges one finished execution.  Returns dict of counters."""
    stats = {"executions": 0, "max_points": 0, "deadlocks": 0, "capped": False, "contended": 0, "interleaved": 0}
    if opcode_funcs:
        # CPython instruments a code object for per-instruction events only once a frame of it has asked for them: the
        # very first execution in a process reports fewer points than every later one.  One discarded execution first.
        if setup:
            setup()
        b0, _ = make_bodies()
        Scheduler(b0, sched_files, prefix=[], opcode_funcs=opcode_funcs, only_quals=only_quals).run()
        stats["warmup_executions"] = 1
    stack = [[]]
    while stack:
        prefix = stack.pop()
        if setup:
            setup()
        bodies, ctx = make_bodies()
        s = Scheduler(bodies, sched_files, prefix=prefix, opcode_funcs=opcode_funcs, only_quals=only_quals)
        s.run()
        if s.divergence:
            raise ReplayDivergence(s.divergence)
        stats["executions"] += 1
        stats["max_points"] = max(stats["max_points"], len(s.points))
        if s.deadlock:
            stats["deadlocks"] += 1
        if any(p.where == "blocked" for p in s.points):
            stats["contended"] += 1  # some thread really waited for a lock held by another (the threads collided)
        runs = [p.running for p in s.points if p.running is not None]
        if sum(1 for a, b in zip(runs, runs[1:]) if a != b) > len(set(runs)) - 1:
            stats["interleaved"] += 1  # a thread was resumed after another one ran in between
        root = not prefix
        if not (root and shard and shard[0] != 0):
            on_execution(s, ctx)  # the root execution is judged by shard 0 only
        else:
            stats["executions"] -= 1
        if getattr(s, "stuck", False):
            # a thread is blocked outside the scheduler's control; it has been reported (deadlock) and may still be alive:
            # nothing explored after this point in this process could be trusted
            stats["stuck"] = True
            stats["capped"] = True
            break
        if verify_every and (stats["executions"] + (1 if root and shard and shard[0] != 0 else 0)) % verify_every == 1:
            # determinism is demonstrated, not assumed: the same choices must reproduce the same trace
            if setup:
                setup()
            b2, _ = make_bodies()
            s2 = Scheduler(b2, sched_files, prefix=s.choices(), opcode_funcs=opcode_funcs, only_quals=only_quals)
            s2.run()
            t1 = [(p.running, p.order, p.where) for p in s.points]
            t2 = [(p.running, p.order, p.where) for p in s2.points]
            if t1 != t2 or s2.divergence:
                raise ReplayDivergence(f"schedule {s.choices()[:40]}... did not replay identically ({len(t1)} vs {len(t2)} points)")
            stats["determinism_replays"] = stats.get("determinism_replays", 0) + 1
            if setup:
                setup()
        if max_executions and stats["executions"] >= max_executions:
            stats["capped"] = True
            break
        ch = s.choices()
        for i in range(len(prefix), len(s.points)):
            p = s.points[i]
            cost = s.preemptions_before(i)
            if root and shard and i % shard[1] != shard[0]:
                continue  # this top-level subtree belongs to another shard
            for alt in range(1, len(p.order)):
                c = cost + (1 if p.running_enabled else 0)
                if c > bound:
                    continue
                stack.append(ch[:i] + [alt])
    return stats
