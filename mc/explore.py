"""
Engine E1 for spec-class instances + engine E2 (fault enumeration).

`explore_class(task)` runs a BFS over operation histories of one generated class.  A state is the
shortest history reaching it (rebuilt by replay on fresh objects); the canonical form covers
structure and aliasing of all live instances.  The property-specific part is an *oracle object*:

    oracle.profile(rec)                       -> alphabet profile (dict)
    oracle.applies(rec)                       -> bool
    oracle.checked(op)                        -> is this transition judged (others only build state)
    oracle.pre(ctx)                           -> called with args built, before the call
    oracle.post(ctx, outcome) -> [violation]  -> judged after the call
    oracle.faults                             -> subset of {"callbacks", "lines"}

ctx carries env, rec, world, op, history and whatever `pre` stored.
"""
from __future__ import annotations

import os
import sys

from mc import grammar as G
from mc import snap
from mc import spec_ops as S
from mc.common import Counter, violation

LIB_DIR = None


def lib_dir():
    global LIB_DIR
    if LIB_DIR is None:
        import spec_classes

        LIB_DIR = os.path.dirname(os.path.abspath(spec_classes.__file__)) + os.sep
    return LIB_DIR


class Ctx:
    def __init__(self, env, rec, world, op, history, prop):
        self.env, self.rec, self.world, self.op, self.history, self.prop = env, rec, world, op, history, prop
        self.store = {}
        self.fault = None

    def case(self):
        c = {"rec": self.rec, "history": [dict(o) for o in self.history], "op": dict(self.op)}
        if self.fault:
            c["fault"] = self.fault
        return c

    def sig(self, kind, **kw):
        o = self.rec.get("opts", {})
        d = {
            "kind": kind,
            "shape": self.op.get("shape", self.op["op"]),
            "attr_kind": attr_kind_of(self.rec, self.op),
            "cls": self.rec["name"] if self.rec["name"].startswith("Comp") else "single",
            "opts": "+".join(sorted(k for k, v in o.items() if v)) or "plain",
            "inplace": bool(S.is_inplace(self.op)),
        }
        if self.fault:
            d["fault"] = self.fault["type"]
            if self.fault["type"] == "callback":
                n = self.fault["name"]
                d["callback"] = "prepare_item" if n.startswith("prepare_item_") else ("prepare" if n.startswith("prepare_") else n)
        d.update(kw)
        return d


def attr_kind_of(rec, op):
    """kind of the attribute an op addresses (by method name / attr / keyword)"""
    names = {}
    for a in rec["attrs"]:
        K = G.KINDS[a["kind"]]
        names[G.attr_name(a)] = a["kind"]
        if "item" in K:
            names["item:" + K["item"]] = a["kind"]
    if op["op"] in ("set", "del"):
        return names.get(op["attr"], "?")
    if op["op"] == "call":
        m = op["m"]
        for pre in ("with_", "update_", "transform_", "reset_", "without_"):
            if m.startswith(pre):
                rest = m[len(pre):]
                return names.get(rest) or names.get("item:" + rest) or "?"
        ks = [k for k in op.get("kw", {}) if k in names]
        if ks:
            return "+".join(names[k] for k in ks)
        return "toplevel"
    return op["op"]


# ------------------------------------------------------------------------------------------------
# running one transition (optionally with a fault)
# ------------------------------------------------------------------------------------------------
class LineFaulter:
    """sys.settrace tracer: counts line events in library files; raises InjectedFault at the
    `target`-th one (1-based) if target is set."""

    def __init__(self, target=None, exclude=None):
        self.n = 0
        self.target = target
        self.where = None
        self.prefix = lib_dir()
        self.exclude = exclude

    def _local(self, frame, event, arg):
        if event == "line":
            if self.exclude and self.exclude(frame):
                return self._local
            self.n += 1
            if self.target is not None and self.n == self.target:
                self.where = (frame.f_code.co_filename[len(self.prefix):], frame.f_lineno, frame.f_code.co_name)
                self.target = None
                raise G.InjectedFault(f"line fault #{self.n} at {self.where}")
        return self._local

    def __call__(self, frame, event, arg):
        if event == "call" and frame.f_code.co_filename.startswith(self.prefix):
            return self._local
        return None


def run_transition(env, rec, history, op, oracle, prop, fault=None, world=None):
    """-> (ctx, outcome, violations).  fault: None | {"type":"callback","name":..,"k":..} |
    {"type":"line","i":..} | {"type":"count_lines"}"""
    w = world if world is not None else S.build(env, history)
    ctx = Ctx(env, rec, w, op, history, prop)
    ctx.fault = fault if fault and fault["type"] in ("callback", "line") else None
    G.CB.reset()
    if fault and fault["type"] == "callback":
        G.CB.arm = (fault["name"], fault["k"])
    tracer = None

    def hook(world):
        oracle.pre(ctx)
        if tracer is not None:
            sys.settrace(tracer)

    if fault and fault["type"] in ("line", "count_lines"):
        tracer = LineFaulter(fault.get("i"), exclude=getattr(oracle, "line_exclude", None))
    try:
        try:
            out = S.execute(w, op, adopt=False, pre_hook=hook)
        finally:
            if tracer is not None:
                sys.settrace(None)
    except G.InjectedFault as e:
        t = op.get("t", 0)
        out = S.Outcome("raise", exc=e, receiver=w.objs[t] if t < len(w.objs) else None, args=list(w.args), cow=S.is_cow(op))
    G.CB.arm = None
    ctx.callback_counts = dict(G.CB.counts)
    ctx.lines = tracer.n if tracer is not None else None
    ctx.fault_where = tracer.where if tracer is not None else None
    if "pre_done" not in ctx.store:
        # the call never got as far as building its arguments (e.g. unknown op); nothing to judge
        return ctx, out, []
    viols = oracle.post(ctx, out)
    return ctx, out, viols


def next_objs(world, op, out):
    objs = list(world.objs)
    t = op.get("t", 0)
    if not out.raised and out.cow and out.result is not None and t < len(objs) and isinstance(out.result, type(objs[t])):
        objs[t] = out.result
    return objs


def state_key(objs):
    return snap.canon(objs)


def warm(env, rec, P):
    """execute the whole alphabet once on scratch worlds so that lazily generated methods and
    memoised signatures exist before anything is judged or traced"""
    for h in S.initial_histories(rec, P)[:2]:
        w = S.build(env, h)
        if not w.objs:
            continue
        for op in S.gen_ops(rec, w, dict(P, raising=True)):
            w2 = S.build(env, h)
            try:
                S.execute(w2, op)
            except BaseException:
                pass


def class_state(env):
    """canonical form of the mutable state hanging off the generated classes (defaults, metadata defaults)"""
    out = {}
    for k in env.cls.__mro__:
        md = vars(k).get("__spec_class__")
        if md is not None and hasattr(md, "attrs"):
            for n, a in md.attrs.items():
                out[f"{k.__name__}.md.{n}"] = a.default
        for n, v in vars(k).items():
            if not n.startswith("__") and snap.kind_of(v) != "leaf" and not hasattr(type(v), "__get__"):
                out[f"{k.__name__}.{n}"] = v
    return snap.canon(out)


def explore_class(task):
    """task: {"rec", "depth", "oracle": module-level oracle factory name, "prop", "tier",
    "line_fault_depth", "max_states"}"""
    import importlib

    mod = importlib.import_module(task["module"])
    oracle = mod.make_oracle(task)
    rec = task["rec"]
    prop = task["prop"]
    C = Counter()
    if not oracle.applies(rec):
        return C.rec
    env = G.Env(rec)
    P = oracle.profile(rec)
    warm(env, rec, P)
    class_state0 = class_state(env)
    depth = task["depth"]
    max_states = task.get("max_states", 3000)
    lf_depth = task.get("line_fault_depth", -1)
    inits = S.initial_histories(rec, P)
    if task.get("inits"):
        inits = inits[: task["inits"]]
    seen = {}
    frontier = []
    for h in inits:
        w = S.build(env, h)
        if not w.objs:
            continue
        k = state_key(w.objs)
        if k not in seen:
            seen[k] = h
            frontier.append(h)
    capped = False
    d = 0
    lf_shapes_done = set()
    while frontier and d < depth:
        nxt = []
        for hist in frontier:
            w0 = S.build(env, hist)
            ops = oracle.gen_ops(rec, w0, P) if hasattr(oracle, "gen_ops") else S.gen_ops(rec, w0, P)
            for op in ops:
                judged = oracle.checked(op)
                ctx, out, viols = run_transition(env, rec, hist, op, oracle, prop)
                C.inc("transitions")
                C.inc("evaluations")
                C.outcome(("raise:" + out.family()) if out.raised else "ok")
                for v in viols:
                    C.viol(v)
                if judged and not viols:
                    C.inc("traces_validated_against_impl")
                nobjs = next_objs(ctx.world, op, out)
                key = state_key(nobjs)
                changed = key != state_key_cached(seen, hist, env)
                if out.raised or changed:
                    C.nontrivial((repr(hist[-1:]), len(hist), S.op_label(op), repr(op.get("args")), repr(op.get("kw"))))
                # ---- E2: faults on judged transitions ------------------------------------------
                if judged and not viols and "callbacks" in oracle.faults:
                    for name, cnt in sorted(ctx.callback_counts.items()):
                        for k in range(1, cnt + 1):
                            f = {"type": "callback", "name": name, "k": k}
                            c2, o2, v2 = run_transition(env, rec, hist, op, oracle, prop, fault=f)
                            C.inc("fault_runs")
                            C.inc("evaluations")
                            for v in v2:
                                C.viol(v)
                if judged and not viols and "lines" in oracle.faults and len(hist) - 1 <= lf_depth:
                    shape_key = (len(hist), S.op_label(op), attr_kind_of(rec, op))
                    if task.get("line_fault_all") or shape_key not in lf_shapes_done:
                        lf_shapes_done.add(shape_key)
                        c1, o1, _ = run_transition(env, rec, hist, op, oracle, prop, fault={"type": "count_lines"})
                        L = c1.lines or 0
                        C.inc("line_fault_transitions")
                        for i in range(1, L + 1):
                            f = {"type": "line", "i": i}
                            c2, o2, v2 = run_transition(env, rec, hist, op, oracle, prop, fault=f)
                            C.inc("fault_runs")
                            C.inc("line_fault_runs")
                            C.inc("evaluations")
                            for v in v2:
                                if c2.fault_where:
                                    v["sig"]["fault_at"] = f"{c2.fault_where[0]}:{c2.fault_where[2]}"
                                    v["detail"]["fault_where"] = list(c2.fault_where)
                                C.viol(v)
                        # poisoning guard: the clean transition must still behave as before
                        c3, o3, v3 = run_transition(env, rec, hist, op, oracle, prop)
                        if o3.brief() != out.brief() or state_key(next_objs(c3.world, op, o3)) != key:
                            C.inc("env_rebuilds")
                            env = G.Env(rec)
                            warm(env, rec, P)
                if viols and class_state(env) != class_state0:
                    # a violating transition damaged class-level state (a mutated class default, ...):
                    # continue with a fresh class so that later transitions are judged on their own
                    C.inc("env_rebuilds")
                    env = G.Env(rec)
                    warm(env, rec, P)
                    class_state0 = class_state(env)
                if viols or out.raised:
                    continue
                if key not in seen:
                    if len(seen) >= max_states:
                        capped = True
                        continue
                    seen[key] = hist + (op,)
                    nxt.append(hist + (op,))
        frontier = nxt
        d += 1
    C.rec["states"] = len(seen)
    ex = C.rec["extra"]
    ex["max_depth"] = d
    ex["classes"] = 1
    for k, v in getattr(oracle, "stats", {}).items():
        ex[k] = ex.get(k, 0) + v
    if capped:
        ex["capped_classes"] = [rec["name"]]
        C.rec["exhaustive"] = False
    hs = max(seen.values(), key=len)
    C.sample({"class": rec["name"], "source": env.source[:400], "history": [S.op_label(o) + ":" + repr({k: v for k, v in o.items() if k in ("m", "args", "kw", "attr", "value")}) for o in hs][:6]})
    return C.rec


_KEYCACHE = {}


def state_key_cached(seen, hist, env):
    # key of the state `hist` leads to (seen maps key -> history)
    k = (id(seen), len(hist), id(hist))
    r = _KEYCACHE.get(k)
    if r is None:
        for kk, hh in seen.items():
            if hh is hist:
                r = kk
                break
        _KEYCACHE.clear()
        _KEYCACHE[k] = r
    return r


def replay_case(case, module):
    """re-execute a recorded case (no explorer)"""
    import importlib

    mod = importlib.import_module(module)
    task = {"tier": "replay", "prop": mod.PROP}
    oracle = mod.make_oracle(task)
    rec = case["rec"]
    env = G.Env(rec)
    warm(env, rec, oracle.profile(rec))
    hist = tuple(case["history"])
    ctx, out, viols = run_transition(env, rec, hist, case["op"], oracle, mod.PROP, fault=case.get("fault"))
    for v in viols:
        if ctx.fault_where:
            v["sig"]["fault_at"] = f"{ctx.fault_where[0]}:{ctx.fault_where[2]}"
    return viols
