#!/usr/bin/env python3
"""Run every kept seeded change (seeded/<id>/patch.diff + demo.py) through tools/mutant.py against the check of its
property (and extra checks given with --also C01,C04) and write seeded/INDEX.md + seeded/<id>/meta.json.
   tools/seeded_index.py [ids...] [--also C..,C..] [--tier quick]"""
import json, os, re, subprocess, sys, time
ids, also, tier = [], [], "quick"
a = sys.argv[1:]
while a:
    x = a.pop(0)
    if x == "--also": also = a.pop(0).split(",")
    elif x == "--tier": tier = a.pop(0)
    else: ids.append(x)
root = "/verif/seeded"
rows = []
for d in sorted(os.listdir(root)):
    p = os.path.join(root, d)
    if not os.path.isdir(p) or not os.path.exists(os.path.join(p, "patch.diff")):
        continue
    meta_p = os.path.join(p, "meta.json")
    meta = json.load(open(meta_p)) if os.path.exists(meta_p) else {"id": d, "property": re.search(r"C\d\d", d).group(0), "origin": "hand-written while building the checks"}
    if ids and d not in ids:
        rows.append(meta)
        continue
    prop = meta["property"]
    checks = [prop] + [c for c in also if c != prop]
    out = subprocess.run(["/verif/tools/mutant.py", os.path.join(p, "patch.diff"), "--demo", os.path.join(p, "demo.py"), "--checks", ",".join(checks),
                          "--tier", tier, "--show", "2"], capture_output=True, text=True).stdout
    meta["verified"] = {
        "demo_clean_rc": int(re.search(r"DEMO\[clean\]: rc=(\d+)", out).group(1)) if "DEMO[clean]" in out else None,
        "demo_patched_rc": int(re.search(r"DEMO\[patched\]: rc=(\d+)", out).group(1)) if "DEMO[patched]" in out else None,
        "suite": (re.search(r"TESTS: rc=\d+ (.*)", out) or [None, "?"])[1],
        "ran": f"tools/mutant.py seeded/{d}/patch.diff --demo seeded/{d}/demo.py --checks {','.join(checks)} --tier {tier}",
        "at_repo_commit": subprocess.run(["git", "-C", "/repo", "rev-parse", "--short", "HEAD"], capture_output=True, text=True).stdout.strip(),
    }
    det, sigs = [], {}
    for c in checks:
        m = re.search(rf"^{c}: (\w[\w-]*) rc=(\d) violations=(\d+)", out, re.M)
        if m and m.group(1) == "DETECTED":
            det.append(c)
        sigs[c] = m.group(1) if m else "NOT-RUN"
    meta["detected_by"] = sorted(set(meta.get("detected_by", [])) | set(det)) if not ids else sorted(set(det) | (set(meta.get("detected_by", [])) - set(checks)))
    meta["last_run"] = sigs
    first_sig = re.search(r"sig=(\{.*\})", out)
    if first_sig:
        meta["example_signature"] = first_sig.group(1)[:400]
    json.dump(meta, open(meta_p, "w"), indent=1)
    rows.append(meta)
    print(d, sigs, meta["verified"]["suite"], "demo", meta["verified"]["demo_clean_rc"], meta["verified"]["demo_patched_rc"], flush=True)
with open(os.path.join(root, "INDEX.md"), "w") as fh:
    fh.write("# Seeded property-breaking changes (never applied to /repo)\n\n")
    fh.write("Each directory holds `patch.diff`, `demo.py` (exits 0 on the clean tree, non-zero with the patch) and `meta.json`.\n")
    fh.write("All changes keep the pinned 152-test suite green. `A-*` = written by an independent sub-agent that saw only the property text; `H-*` = hand-written.\n\n")
    fh.write("| id | property | detected by (quick tier) | demo clean/patched rc | what it needs to manifest |\n|---|---|---|---|---|\n")
    for m in rows:
        need = " ".join(m.get("needs_to_manifest", [])[:3])[:220].replace("|", "/").replace("\n", " ") if m.get("needs_to_manifest") else m.get("origin", "")
        v = m.get("verified", {})
        fh.write(f"| {m['id']} | {m['property']} | {', '.join(m.get('detected_by', [])) or '**MISSED**'} | {v.get('demo_clean_rc')}/{v.get('demo_patched_rc')} | {need} |\n")
print("INDEX written:", len(rows), "entries")
