#!/usr/bin/env python3
"""tools/add_fixed.py <PROP> <commit> <what failed>   -- append a status=fixed entry to known_findings.json (never run by a check)"""
import json, sys
prop, commit, what = sys.argv[1], sys.argv[2], sys.argv[3]
p = "/verif/known_findings.json"
k = json.load(open(p))
k["findings"].append({"property": prop, "status": "fixed", "commit": commit, "what_fails": f"fixed: property={prop} {commit} {what}"})
json.dump(k, open(p, "w"), indent=1)
print(len(k["findings"]), "entries")
