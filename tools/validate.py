#!/opt/veriftools/pyvenv/bin/python
"""Validate MANIFEST.json, every evidence file and properties coverage against the schemas in /root/.vp (run with python3-vt)."""
import json, glob, sys
import jsonschema
ok = True
man = json.load(open("/verif/MANIFEST.json"))
jsonschema.validate(man, json.load(open("/root/.vp/MANIFEST.schema.json")))
ev_schema = json.load(open("/root/.vp/EVIDENCE.schema.json"))
props = [json.loads(l)["id"] for l in open("/verif/properties.jsonl")]
claimed = {c["property_id"] for c in man["checks"]}
na = {x["property_id"] for x in man.get("not_applicable", [])}
for p in props:
    if (p in claimed) == (p in na):
        print("property neither/both claimed and not_applicable:", p); ok = False
for c in man["checks"]:
    f = c["evidence_file"]
    try:
        e = json.load(open(f))
        jsonschema.validate(e, ev_schema)
        assert e["level"] == c["level_claimed"]["category"], (e["level"], c["level_claimed"]["category"])
        cov = e["coverage"]
        assert cov["states"] >= 1 and cov["transitions"] >= 1 and cov["samples"], "model_checking keys"
    except Exception as ex:
        print("EVIDENCE PROBLEM", f, repr(ex)[:300]); ok = False
kf = json.load(open("/verif/known_findings.json"))
for e in kf["findings"]:
    assert e["status"] in ("open", "fixed") and e["property"] in props
    if e["status"] == "fixed":
        assert e["what_fails"].startswith(f"fixed: property={e['property']} {e['commit']}"), e["what_fails"][:60]
print("validate:", "ok" if ok else "PROBLEMS", f"({len(claimed)} checks, {len(kf['findings'])} findings)")
sys.exit(0 if ok else 1)
