#!/usr/bin/env python3
"""tools/ingest_seed.py <agent_out_dir> <PROP> <k> [prefix=A] : copy a verified sub-agent mutant into /verif/seeded/<prefix>-<PROP>-<k>/"""
import json, os, shutil, sys
src, prop, k = sys.argv[1], sys.argv[2], sys.argv[3]
pre = sys.argv[4] if len(sys.argv) > 4 else "A"
d = f"/verif/seeded/{pre}-{prop}-{k}"
os.makedirs(d, exist_ok=True)
shutil.copy(f"{src}/mutant{k}.diff", f"{d}/patch.diff")
shutil.copy(f"{src}/demo{k}.py", f"{d}/demo.py")
notes = open(f"{src}/notes{k}.md").read() if os.path.exists(f"{src}/notes{k}.md") else ""
open(f"{d}/notes.md", "w").write(notes)
meta = {"id": f"{pre}-{prop}-{k}", "property": prop, "origin": "independent sub-agent (given only the property text and a scratch worktree)",
        "needs_to_manifest": notes.strip().splitlines()[0:12], "verified": {}, "detected_by": [], "history": []}
if os.path.exists(f"{d}/meta.json"):
    old = json.load(open(f"{d}/meta.json"))
    meta["detected_by"], meta["history"], meta["verified"] = old.get("detected_by", []), old.get("history", []), old.get("verified", {})
json.dump(meta, open(f"{d}/meta.json", "w"), indent=1)
print(d)
