#!/usr/bin/env python3
"""Re-base every kept seeded patch onto the current /repo HEAD (3-way merge in a scratch worktree) so that a plain
`git -C /repo apply seeded/<id>/patch.diff` keeps working after repairs were committed to /repo.  Patches that no longer
merge are listed; nothing is changed for them."""
import os, subprocess, sys, tempfile, shutil
root = "/verif/seeded"
wt = tempfile.mkdtemp(prefix="vseed_", dir="/tmp")
os.rmdir(wt)
subprocess.check_call(["git", "-C", "/repo", "worktree", "add", "-q", "--detach", wt])
failed, refreshed, same = [], [], []
try:
    for d in sorted(os.listdir(root)):
        p = os.path.join(root, d, "patch.diff")
        if not os.path.exists(p):
            continue
        subprocess.call(["git", "-C", wt, "reset", "-q", "--hard"])
        if subprocess.call(["git", "-C", wt, "apply", "--check", p], stderr=subprocess.DEVNULL) == 0:
            same.append(d)
            continue
        r = subprocess.run(["git", "-C", wt, "apply", "--3way", p], capture_output=True, text=True)
        diff = subprocess.run(["git", "-C", wt, "diff", "HEAD"], capture_output=True, text=True).stdout
        if r.returncode != 0 or "<<<<<<<" in diff or not diff.strip():
            failed.append(d)
            continue
        open(p, "w").write(diff)
        refreshed.append(d)
finally:
    subprocess.call(["git", "-C", wt, "reset", "-q", "--hard"])
    subprocess.call(["git", "-C", "/repo", "worktree", "remove", "--force", wt])
print("unchanged:", len(same), "refreshed:", refreshed, "FAILED:", failed)
