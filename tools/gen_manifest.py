#!/usr/bin/env python3
"""Regenerates /verif/MANIFEST.json from the table below (kept in one place so that the manifest
is valid at every commit).  Properties without an implemented check are listed under
not_applicable with the reason 'not yet implemented' until their check lands."""
import json
import os

HERE = os.path.dirname(os.path.dirname(os.path.abspath(__file__)))

CHECKS = {
    # id: (engine, technique, level text, level note, design ref)
    "C13": (
        "E1-explicit-state",
        "explicit-state BFS over operation histories of the real KeyedList, lock-step reference model (plain list + key function)",
        "All container contents of <= 3 (quick) / <= 4 (thorough) items over 4 universes (k=4 keys x p=2 payloads, typed and untyped) are reached by BFS over real operation histories; from every state every operation of the alphabet with every index in [-len-1,len+1] and every item/key is executed on the real KeyedList and compared with a plain-list reference model, all public reads are compared after every step, and every raising operation is checked to leave all public reads unchanged. Exhaustive within the size bound; a seeded random extension beyond it is reported separately.",
        "Trusts the reference model (props/c13.py apply_model, ~150 lines) and the reading that integer subscripts are index operations; items immutable; values outside the universes not covered.",
        "DESIGN.md section 4, C13",
    ),
}

CHECKS["C14"] = (
    "E1-explicit-state",
    "explicit-state BFS to fixpoint over operation histories of the real KeyedSet, lock-step reference model (dict key -> most recently added item)",
    "All mappings key -> item over 3 (quick) / 4 (thorough) keys x 2 payloads, for 4 item universes (self-keyed, key function, keyed spec-class items, unhashable items), typed/untyped and both settings of enforce_item_equivalence, are reached by BFS over real operation histories; from every state every operation incl. every binary / in-place / comparison operator against every KeyedSet, built-in set and list operand of <= 2 items is executed on the real container and compared with the reference mapping (results by key set, each result item an operand's item for that key); all public reads compared after every step; raising operations must change nothing. Reaches fixpoint: exhaustive for the stated universe.",
    "Trusts the reference model (props/c14.py apply_model); declared don't-care zones where 'algebra on keys' and 'mapping to the most recent item' disagree (see evidence assumptions); items never mutated.",
    "DESIGN.md section 4, C14",
)

CHECKS["C15"] = (
    "E4-config-enumerator",
    "exhaustive enumeration of annotation terms of bounded depth x position-aimed value pool against an independent structural reference evaluated on the term tree",
    "Every annotation term of the stated type language up to depth 2 (all atoms, all constructors over atoms, all unary constructors over depth-1 terms, binary constructors over a small family; thorough: binary with one atomic side over all depth-1 terms and depth-3 unary towers; 1.5e4 / 1.7e5 terms) is paired with a base pool of ~65 values plus per-term conforming values and values failing at each structural position; check_type must agree with the reference on every pair and never raise. Exhaustive over the enumerated finite grammar.",
    "Trusts the reference `conforms` (props/c15.py, ~90 lines, evaluated on the term tree, never on typing objects); CPython 3.12 typing; Fraction-like Real numbers not in the pool.",
    "DESIGN.md section 4, C15",
)

CHECKS["C12"] = (
    "E1-explicit-state",
    "explicit-state BFS to fixpoint over {read, assign, delete, change underlying state} histories on fresh real classes, lock-step slot-machine reference",
    "For all 16 (overridable, cache, setter, deleter) combinations of spec_property on 5 hosts (plain class, spec class without annotation, managed annotation, + preparer, + ill-typed getter) and all 32 classproperty configurations over a three-class hierarchy, the reachable state space (reference slot state x real instance/descriptor fingerprint) is explored to fixpoint; value and exception family of every access are compared with the slot-machine reference, and a failing access must change nothing.",
    "Trusts the reference slot machine (props/c12.py RefProp/RefClassProp); value domain {1,2,5,6,ill-typed}; cache invalidation by dependencies is C11's subject.",
    "DESIGN.md section 4, C12",
)
CHECKS["C18"] = (
    "E1-explicit-state",
    "explicit-state BFS to fixpoint per alias configuration on fresh real hosts, lock-step (target, override) reference; DeprecatedAlias warnings counted per access",
    "All 128 configurations (plain/spec host x Alias/DeprecatedAlias x passthrough x transform x fallback x 4 path shapes) are explored to fixpoint over {read alias (and mutate the returned fallback), write alias 5/6/ill-typed, delete alias, read/write/delete target via its own path, copy-on-write helper on alias and target, deepcopy, reset}; every outcome and the target's value are compared with the reference; state includes class-level alias state (fallback object).",
    "Trusts the reference RefAlias (props/c18.py); on spec hosts deleting a managed target restores its class default; exactly-one-warning is demanded on plain hosts, at-least-one on spec hosts.",
    "DESIGN.md section 4, C18",
)

CHECKS["C01"] = (
    "E1-explicit-state+E2-fault-enumerator",
    "explicit-state BFS over operation histories of generated spec classes with an object-graph identity oracle, plus exhaustive single-fault enumeration (every user-callback invocation, every executed library line)",
    "For every class of the grammar family (quick: ~70 classes, thorough: ~240 incl. all kind x default-mode singles, options one at a time and composites) a BFS over histories of constructor calls, assignments, deletions, in-place and copy-on-write helper calls is run on the real class; every helper call without _inplace (valid and invalid arguments, raising transforms) is judged by comparing the receiver's and every argument's object graph (node identities and shallow contents) before and after, and is re-executed once per user-callback invocation with that callback raising and once per executed library line with an exception injected there (deviation bound 1, exhaustive).",
    "Classes are warmed before judging (lazy first-call code not fault-injected); line granularity; pure transforms/preparers; bounded depth (quick 2 / thorough 3) and pools.",
    "DESIGN.md section 4, C01",
)

CHECKS["C02"] = (
    "E1-explicit-state",
    "explicit-state BFS over operation histories of generated spec classes; structural sharing oracle on every copy transition plus replayed in-place differential",
    "For every class of the grammar family a BFS over histories (valid arguments) is run on the real class; on every copy-on-write helper call and copy.deepcopy the set of mutable nodes reachable from both receiver and result must lie within the call's own argument objects and do_not_copy values, do_not_copy attributes not targeted by the call must be carried by identity, and (oracle 2) every in-place operation of the small alphabet applied to the result / to the receiver on freshly replayed objects must leave the other observably unchanged.",
    "Bounded depth and pools; transforms return new objects; frozen nested instances are immutable leaves; oracle 2 in quick tier runs once per call shape and depth.",
    "DESIGN.md section 4, C02",
)

CHECKS["C03"] = (
    "E1-explicit-state",
    "explicit-state BFS over operation histories of generated spec classes with a state invariant evaluated by an independent structural type reference",
    "For every class of the grammar family a BFS over histories with the widest alphabet (constructor keywords, dict-to-spec casting, assignment, deletion, scalar and element helpers with index/key/value addressing, nested keyword updates, top-level update/transform, preparers and item preparers returning conforming and non-conforming values; non-conforming values aimed at whole value, element, key, value and nested attribute) is run on the real class; after every transition every managed attribute of every live instance must be missing or conform to its annotation per mc/ref/reftype.py; a rejected non-conforming argument must raise TypeError or ValueError.",
    "Trusts mc/ref/reftype.py (hand-written per attribute kind); bounded depth and pools; direct mutation of contained containers out of scope.",
    "DESIGN.md section 4, C03",
)
CHECKS["C04"] = (
    "E1-explicit-state+E2-fault-enumerator",
    "explicit-state BFS over operation histories with an unchanged-on-raise oracle over all pre-existing roots, plus exhaustive user-callback fault enumeration",
    "For every class of the grammar family a BFS over histories with the widest alphabet incl. constructor, in-place and copy-on-write helpers, multi-keyword update/transform with the failing keyword second, element helpers, every way of failing named by the property (ill-typed value per position, missing index/key/element, duplicate key, unknown keyword) and, per transition, one re-execution per user-callback invocation (transform, attribute transform, preparer, item preparer, validator, default factory, __post_init__, __post_copy__) with that callback raising; whenever the call raises, the canonical form (structure and aliasing) of receiver, peers, arguments and class defaults must equal the pre-state.",
    "One open known finding (in-place multi-attribute update/transform); bounded depth and pools; no line-level faults (not in the quantifier).",
    "DESIGN.md section 4, C04",
)

CHECKS["C07"] = (
    "E1-explicit-state",
    "lock-step explicit-state BFS over twin classes (frozen=True vs not) with a differential oracle and an immutability invariant on every frozen instance ever created",
    "Every class of the family is generated twice (frozen twin; frozen by inheritance for plain subclasses; plus non-frozen parents holding frozen children, singly and in a list). Histories of constructor + copy-on-write operations are replayed on both twins; from every state every public operation (assignment, deletion, all helpers with and without _inplace, deepcopy, nested keyword updates) is executed on both: every frozen instance ever created must stay observably unchanged, in-place operations on a frozen receiver must raise FrozenInstanceError, copy-on-write results must be distinct from the receiver exactly when the twin's are, and outcome kind / exception family / canonical result must equal the twin's.",
    "Bounded depth and pools; results compared modulo class name; an in-place call whose arguments are themselves rejected may fail like the twin.",
    "DESIGN.md section 4, C07",
)

CHECKS["C08"] = (
    "E1-explicit-state",
    "explicit-state BFS over multi-instance histories of generated spec classes with bystander, sharing and fresh-default oracles",
    "For every attribute kind x every way of declaring a default (literal, mutable literal, Attr(default/default_factory), field(default/default_factory), override in a spec subclass, override in a plain subclass) and the composites, a BFS over histories mixing construction of up to 2 (quick) / 3 (thorough) live instances, in-place scalar / element / nested-keyword mutation of any live instance, assignment, del, reset_<attr> and reset is run on the real class; after every transition class-level defaults, constructor arguments and peers must be observably unchanged, no instance may share a mutable node with them, and a reset/deleted attribute must equal (and not alias) what a freshly constructed instance of the same class holds.",
    "Bounded depth and pools; do_not_copy attribute values are excepted from the sharing oracle; objects assigned with obj.attr = value are caller-owned.",
    "DESIGN.md section 4, C08",
)

CHECKS["C06"] = (
    "E1-explicit-state",
    "explicit-state BFS over container contents reachable by element helpers of the real class, each transition compared with the plain list/dict/set operation",
    "For every collection attribute kind (List[int], List[str], Dict[str,int], Set[int], Set[str], List[Leaf], Dict[str,Leaf], List[Keyed], Dict[str,Keyed], KeyedList, KeyedSet), with missing and defaulted containers and with item preparers, all container contents up to the length bound (universes with falsy members and repeated equal elements) are reached by in-place element operations; from every content every element helper x addressing mode (_index in [-len-1,len+1] x _insert, _by_index default/True/False, by key, by value, keywords building/updating spec elements, bare key promotion) is executed copy-on-write and in place on the real class and compared with the corresponding plain Python container operation on a copy of the previous content (content, order, exception type for missing targets).",
    "Reference = ref_apply in props/c06.py (plain container ops); length bound 2-3 (quick) / 3-4 (thorough); key addressing on a plain List[Keyed] not exercised.",
    "DESIGN.md section 4, C06",
)

CHECKS["C05"] = (
    "E1-explicit-state",
    "explicit-state BFS over operation histories of generated spec classes, every transition compared with an executable model of the documentation plus model-free differentials",
    "For every class of the family a BFS over histories on the documented alphabet (with_/update_/transform_/reset_<attr> in every documented call form, assignment, deletion, update for singles and ordered pairs, transform, reset; _inplace x _if; MISSING / UNCHANGED; conforming values; pure transforms) is run on the real class; after every transition the state of the result equals the reference model applied to the real pre-state (preparer -> dict-as-keywords -> container normalisation with item preparer and key promotion -> type check), identity rules hold (copy returns a new object, in-place returns the receiver, no-ops return the receiver), and the model-free differentials agree (copy vs in-place on a clone, obj.a = v vs with_a(v, _inplace=True), update(a,b) vs chained with_, with_a(**kw) vs with_a(Nested(**kw)), with_a(MISSING) vs with_a()).",
    "Trusts refspec in props/c05.py (~200 lines); undocumented call forms are skipped (counted as model_skips); bounded depth and pools.",
    "DESIGN.md section 4, C05",
)

CHECKS["C20"] = (
    "E1-explicit-state+E2-fault-enumerator+E3-thread-scheduler",
    "exhaustive enumeration of copy-operation sequences, of abort points (every executed library line / user-callback invocation), and stateless preemption-bounded exploration (bound 2) of real threads under a controlled scheduler with cooperative locks",
    "(a) every sequence of <= 3 (quick) / 4 (thorough) copying operations (12 kinds: constructors with mutable / nested / module-bearing arguments, helpers, deepcopy flat / nested to depth 3 / nested instances, reset, user __deepcopy__, direct protect) from two initial tables; copyreg.dispatch_table is compared with the initial snapshot after every operation. (b) every operation re-executed with an exception injected at every executed library line outside the protection primitive's own methods/with statement and at every user-callback invocation, followed by a clean copy. (c) 2 threads (3 flavours) and 3 threads each deep-copying module-bearing values: every schedule with <= 2 preemptions (3 threads: 1 in quick) at every executed line of utils/mutation.py, fresh primitive state per execution, ~2.8e4 schedules; each copy must succeed carrying the module by identity and the table must be restored at the end of every schedule. Random schedules beyond the bound are run in addition and reported separately.",
    "Library locks replaced by cooperative re-entrant locks of equal semantics; source-line preemption granularity (bytecode inside the primitive in the thorough tier); GIL-mode CPython; faults inside the primitive's own bookkeeping excluded by the stated reading.",
    "DESIGN.md section 4, C20",
)

CHECKS["C19"] = (
    "E4-config-enumerator+E3-thread-scheduler",
    "exhaustive trigger enumeration against the eager twin, plus stateless preemption-bounded exploration of real threads performing concurrent first uses under a controlled scheduler with cooperative locks",
    "(a) for 10 class bodies (Attr / dataclasses.field declarations, default_factory, init/repr/compare flags, key + preparers, inheritance from a not-yet-bootstrapped parent, __new__ defined / inherited, self-referential and nested types, invalidated_by) every first trigger (instantiation with and without keywords, __spec_class__, __dataclass_fields__, dataclasses.fields, instantiation / metadata through a subclass, metadata-then-helper) x an optional second use on a fresh lazily decorated class is compared with the same body decorated bootstrap=True (metadata, per-attribute flags, names and signatures of every generated method, class-level defaults, invalidation map, instances). (b) per (body, trigger tuple) every schedule with <= 1 preemption (quick; thorough: bound 2 on the small bodies, bound 1 with 3 threads and with every library file as scheduling file) of 2-3 real threads each performing a first use, scheduling points = every executed line of spec_class.py and methods/base.py, fresh classes per execution (~1e4 schedules quick): no thread may raise, every thread's own observation and the final class description must equal the sequential eager result. Random schedules are run in addition and reported separately.",
    "Library RLock replaced by a cooperative re-entrant lock of equal semantics; source-line preemption granularity in the scheduling files (other code atomic); GIL-mode CPython 3.12; __new__ itself is not compared.",
    "DESIGN.md section 4, C19",
)

CHECKS["C10"] = (
    "E4-config-enumerator+E1-explicit-state",
    "exhaustive enumeration of all ordered pairs/triples over canonical reachable-state pools, of single-difference pairs over all attribute orders, and of self-referential structures",
    "(a) for every class of the family (and subclass families together with base-class instances) a pool of <= 8 (quick) / 12 canonical reachable states is built from constructor variants and one helper step; ALL ordered pairs and triples are checked for reflexivity, symmetry, transitivity, == iff every compare-enabled attribute is equal (missing equals only missing), != consistency, deepcopy(x) == x, reconstruction from own attribute values, and repr (never raises; lists exactly the repr-enabled attributes in declaration order). (b) classes holding ints, strs, lists, bound methods, functions, classes, modules, Optional, a no-default attribute and a compare=False attribute in EVERY declaration order (all permutations + extra orders): for each attribute position every pair of instances differing in exactly that attribute must compare unequal unless it is compare=False. (c) repr of 10 self-referential / missing-value structures in 4 modes.",
    "Pools are bounded; bound-method values are identical objects or differ in function; cross-class pairs judged for symmetry/transitivity/implication only.",
    "DESIGN.md section 4, C10",
)

CHECKS["C11"] = (
    "E1-explicit-state",
    "explicit-state BFS per dependency graph over read / override / delete / mutate histories on the real classes, lock-step reference of source values and override validity",
    "15 dependency graphs over <= 4 nodes (managed sources with and without default, unmanaged source, list source, cached spec_property, uncached spec_property(invalidated_by), non-overridable cached property, Attr(invalidated_by), managed annotated property; single edge, chains of 2 and 3 incl. through an uncached or attribute intermediate, diamond, '*', dependant added in a subclass, cache filled in __post_init__). BFS (depth 4 quick / 6 thorough, state = reference state x instance fingerprint) over {read, override, delete of every derived value; setattr, delattr, with_, transform_, reset_<attr>, update, transform, element helper - in place and copy-on-write - plus ill-typed (failing) mutations of every source; reset; deepcopy}. After every transition all derived values are read on a replayed twin and must equal the reference getters on current source values (or the override assigned since the last change of a transitive dependency), failed mutations must leave the instance untouched, caches must survive re-reads, and the receiver of a copy-on-write call must stay consistent.",
    "Trusts the reference Ref in props/c11.py; invalidation is taken to drop user overrides of dependants as well; depth-bounded.",
    "DESIGN.md section 4, C11",
)

CHECKS["C09"] = (
    "E4-config-enumerator",
    "exhaustive enumeration of class hierarchies x keyword sets against an ownership/default-resolution reference evaluated on the declared hierarchy",
    "Every hierarchy of the grammar (6 shapes: single class, spec subclass that re-declares / re-defaults / adds attributes, plain subclass re-defaulting, spec subclass + plain subclass, multiple inheritance of two spec parents, two spec subclass levels; x generated / hand-written parent constructor of the documented shape x key none / without default / with default x overflow attribute x init=False attribute x default factories; 85 quick / ~150 thorough after pruning undocumented combinations), every final class, every keyword set (all subsets with conforming values, each attribute non-conforming alone and with all others conforming, unknown names) and the key passed positionally: the constructed instance's managed attributes, the overflow dict, the number of hand-written constructor calls, and __post_init__ (exactly once, after all attributes are set) are compared with refinit; expected TypeError cases must raise.",
    "Trusts refinit in props/c09.py (never reads library metadata); hand-written constructors have the documented shape and are judged only as parent constructors.",
    "DESIGN.md section 4, C09",
)

CHECKS["C16"] = (
    "E4-config-enumerator",
    "exhaustive enumeration of class variants (every generated name x occupant kind x lazy/eager; colliding attribute-name sets; selections and switches) with class-__dict__ snapshots before decoration, after bootstrap and after first use of every helper",
    "(A) for every class of the family, lazy and eager, and for each generated helper name of that class plus __init__/__repr__/__eq__, the variant defining that name in its own body as function / staticmethod / property / plain value (~7.6e3 variants quick); (B) 14 attribute-name sets whose singular/plural forms collide, in both declaration orders; (C) all init/repr/eq switch combinations, attrs / attrs_typed / attrs_skip / key / overflow selections and private nominations. Each class is built undecorated, snapshotted, decorated, bootstrapped and every helper is used once: every user-defined name keeps its identity, the set of added names equals refnames(class) (four scalar helpers per managed attribute, four element helpers per collection under its singular name or <attr>_item, three top-level helpers, the dunders incl. __spec_class_init__/repr/eq__), private attributes stay unmanaged, and each collection's with_<item> helper acts on that collection only.",
    "refnames in props/c16.py calls inflect directly for the singular form; Attr/field declarations are replaced by their default by design; a user-defined __new__ may stay wrapped until the first instantiation of a lazy class.",
    "DESIGN.md section 4, C16",
)

CHECKS["C17"] = (
    "E4-config-enumerator",
    "exhaustive enumeration of call forms per generated method against its advertised signature, observed through a spy on the wrapper's implementation and on the real method",
    "For every method generated for every class of the family and for dedicated hosts with nested spec classes (keyed, init=False attribute, overflow attribute; nested as attribute, list element, dict value, KeyedSet element): every single advertised parameter and every pair by keyword, every prefix of positional-or-keyword parameters positionally, one positional too many, and 6 unadvertised names. Through a spy replacing the wrapper's implementation every advertised keyword must arrive under its name with the value given, omitted real parameters with the default the signature shows, omitted virtual parameters absent; on the real method an unadvertised keyword must raise TypeError and leave the receiver observably unchanged; nested keywords must equal the init-enabled attributes of the nested spec class minus its overflow attribute.",
    "White-box seam: the generated wrapper's module-global `implementation`; sentinel values; a signature ending in **<overflow> advertises arbitrary keywords.",
    "DESIGN.md section 4, C17",
)

ENGINES = [
    {"name": "E1-explicit-state", "path": "mc/common.py, props/*.py (explore)", "serves_properties": [],
     "kind_free_text": "breadth-first explicit-state search over the real transition function; a state is the shortest operation history that reaches it, rebuilt by replay; canonical-form deduplication; lock-step reference model"},
    {"name": "E2-fault-enumerator", "path": "mc/faults.py", "serves_properties": [],
     "kind_free_text": "deviation bound 1: one injected exception per execution, at every user-callback invocation and (C01, C20) at every executed library line via sys.settrace"},
    {"name": "E3-thread-scheduler", "path": "mc/sched.py", "serves_properties": [],
     "kind_free_text": "CHESS-style stateless exploration of real threads under a baton scheduler with cooperative locks; iterative preemption bounding 0,1,2; scheduling points = executed library lines"},
    {"name": "E4-config-enumerator", "path": "props/*.py", "serves_properties": [],
     "kind_free_text": "exhaustive enumeration of a finite grammar instantiation (class hierarchies x keyword subsets; annotation terms x values) against a reference model"},
]


def main():
    props = [json.loads(l) for l in open(os.path.join(HERE, "properties.jsonl"))]
    checks = []
    na = []
    for p in props:
        pid = p["id"]
        if pid in CHECKS and os.path.exists(os.path.join(HERE, "props", pid.lower() + ".py")):
            eng, tech, text, note, ref = CHECKS[pid]
            checks.append({
                "property_id": pid,
                "quick_cmd": f"./check {pid} --tier quick",
                "thorough_cmd": f"./check {pid} --tier thorough",
                "evidence_file": f"/verif/evidence/{pid}.json",
                "replay_cmd_template": f"./check {pid} --replay {{path}}",
                "engine": eng,
                "level_claimed": {"category": "model_checking", "text": text, "design_ref": ref},
                "level_note": note,
                "technique": tech,
            })
            for e in ENGINES:
                if e["name"] in eng.split("+") and pid not in e["serves_properties"]:
                    e["serves_properties"].append(pid)
        else:
            na.append({"property_id": pid, "reason": "check not yet implemented in this revision of /verif (model checking applies; see DESIGN.md section 4)"})
    man = {
        "version": 1,
        "setup_cmd": "./setup.sh",
        "hooks": {
            "guard": "SPEC_CLASSES_VERIF",
            "enable": "no source hooks: the harness observes and steers the unmodified library from outside (sys.settrace, rebinding module globals such as RLock before classes are decorated, spying on generated wrappers); checks import spec_classes from /repo's working tree (or VERIF_REPO_ROOT)",
            "baseline_off_cmd": "cd /repo && /venv/bin/python -m pytest -ra -q -p no:cacheprovider --timeout=900 --continue-on-collection-errors",
            "source_commits": [],
            "add_only": True,
        },
        "engines": ENGINES,
        "checks": checks,
        "notes": "Genuine defects found by the checks are repaired by 'fix:' commits in /repo and recorded in known_findings.json (status fixed) or kept as open known findings; see DESIGN.md section 5.",
        "not_applicable": na,
    }
    with open(os.path.join(HERE, "MANIFEST.json"), "w") as fh:
        json.dump(man, fh, indent=1)
    print(f"MANIFEST.json: {len(checks)} checks, {len(na)} not yet claimed")


if __name__ == "__main__":
    main()
