#!/usr/bin/env python3
"""Run checks against a property-breaking change without touching /repo:
   tools/mutant.py <patch.diff> --checks C13,C14 [--tier quick] [--no-tests]
Creates a scratch git worktree of /repo under /tmp, applies the patch, runs the pinned test suite
there, runs the named checks with VERIF_REPO_ROOT=<worktree> and VERIF_OUT=<scratch>, reports
per check DETECTED / MISSED, and removes the worktree and all output."""
import argparse, os, shutil, subprocess, sys, tempfile, re

ap = argparse.ArgumentParser()
ap.add_argument("patch")
ap.add_argument("--checks", required=True)
ap.add_argument("--tier", default="quick")
ap.add_argument("--no-tests", action="store_true")
ap.add_argument("--seed", default="0")
ap.add_argument("--show", type=int, default=3)
ap.add_argument("--demo", help="demonstration program: must exit 0 on the clean tree and non-zero with the patch")
a = ap.parse_args()
wt = tempfile.mkdtemp(prefix="vmut_")
os.rmdir(wt)
out = tempfile.mkdtemp(prefix="vmutout_")
rc = 0
try:
    subprocess.check_call(["git", "-C", "/repo", "worktree", "add", "-q", "--detach", wt, "HEAD"])
    shutil.copy("/repo/spec_classes/_version.py", os.path.join(wt, "spec_classes", "_version.py"))
    def run_demo(tag):
        p = subprocess.run(["/venv/bin/python", os.path.abspath(a.demo)], cwd=wt, capture_output=True, text=True,
                           env=dict(os.environ, PYTHONPATH=wt, PYTHONDONTWRITEBYTECODE="1"), timeout=300)
        last = (p.stderr.strip().splitlines() or p.stdout.strip().splitlines() or [""])[-1]
        print(f"DEMO[{tag}]: rc={p.returncode} {last[:160]}")
        return p.returncode
    if a.demo:
        run_demo("clean")
    if subprocess.call(["git", "-C", wt, "apply", os.path.abspath(a.patch)]) != 0:
        # the library moved on since the patch was written: try a 3-way merge before giving up
        subprocess.check_call(["git", "-C", wt, "apply", "--3way", os.path.abspath(a.patch)])
        print("NOTE: patch applied with --3way")
    if a.demo:
        run_demo("patched")
    if not a.no_tests:
        p = subprocess.run(["/venv/bin/python", "-m", "pytest", "-q", "-p", "no:cacheprovider", "-x", "tests"],
                           cwd=wt, capture_output=True, text=True, env=dict(os.environ, PYTHONDONTWRITEBYTECODE="1"))
        tail = p.stdout.strip().splitlines()[-1] if p.stdout.strip() else p.stderr[-300:]
        print(f"TESTS: rc={p.returncode} {tail}")
    for c in a.checks.split(","):
        env = dict(os.environ, VERIF_REPO_ROOT=wt, VERIF_OUT=out, VERIF_SEED=a.seed, PYTHONDONTWRITEBYTECODE="1")
        p = subprocess.run(["/verif/check", c, "--tier", a.tier], cwd="/verif", capture_output=True, text=True, env=env)
        viol = [l for l in p.stdout.splitlines() if l.startswith("VIOLATION")]
        sigs = [l for l in p.stdout.splitlines() if l.startswith("   sig=")]
        status = "DETECTED" if p.returncode == 1 and viol else ("HARNESS-ERROR" if p.returncode == 2 else "MISSED")
        print(f"{c}: {status} rc={p.returncode} violations={len(viol)}  {p.stdout.strip().splitlines()[-1] if p.stdout.strip() else ''}")
        for s in sigs[: a.show]:
            print("    " + s.strip()[:300])
        if p.returncode == 2:
            print(p.stdout[-1500:], p.stderr[-1500:])
finally:
    subprocess.call(["git", "-C", "/repo", "worktree", "remove", "--force", wt])
    shutil.rmtree(out, ignore_errors=True)
    shutil.rmtree(wt, ignore_errors=True)
