#!/usr/bin/env python3
"""Run every registered check (quick by default) and print a status table.  Exit 1 if any check
exits non-zero or prints VIOLATION / HARNESS-ERROR.   tools/runall.py [--tier quick] [--seed N] [IDs...]"""
import json, os, subprocess, sys, time
tier, seed, ids = "quick", "0", []
a = sys.argv[1:]
while a:
    x = a.pop(0)
    if x == "--tier": tier = a.pop(0)
    elif x == "--seed": seed = a.pop(0)
    else: ids.append(x.upper())
man = json.load(open("/verif/MANIFEST.json"))
bad = 0
for c in man["checks"]:
    pid = c["property_id"]
    if ids and pid not in ids:
        continue
    cmd = c["quick_cmd"] if tier == "quick" else c.get("thorough_cmd", c["quick_cmd"])
    t = time.time()
    p = subprocess.run(cmd, shell=True, cwd="/verif", capture_output=True, text=True, env=dict(os.environ, VERIF_SEED=seed))
    dt = time.time() - t
    lines = p.stdout.strip().splitlines()
    flag = "ok"
    if p.returncode != 0 or any(l.startswith(("VIOLATION", "HARNESS-ERROR")) for l in lines):
        flag = "FAIL"
        bad += 1
    known = sum(1 for l in lines if l.startswith("KNOWN-FINDING"))
    print(f"{pid} {flag:4} rc={p.returncode} {dt:6.1f}s known_lines={known}  {lines[-1] if lines else p.stderr[-200:]}")
    if flag == "FAIL":
        print("\n".join(lines[-8:]), p.stderr[-600:])
sys.exit(1 if bad else 0)
