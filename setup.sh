#!/bin/sh
# Offline environment validation (nothing is built: the checks are plain Python run by /venv/bin/python).
set -e
cd "$(dirname "$0")"
/venv/bin/python - <<'PY'
import sys, json, os
assert sys.version_info[:2] >= (3, 9), sys.version
sys.path.insert(0, os.environ.get("VERIF_REPO_ROOT", "/repo"))
import spec_classes, inflect, lazy_object_proxy, cached_property  # noqa
for f in ("/verif/properties.jsonl", "/verif/MANIFEST.json", "/verif/known_findings.json"):
    assert os.path.exists(f), f
json.load(open("/verif/MANIFEST.json")); json.load(open("/verif/known_findings.json"))
print("setup ok:", spec_classes.__file__, sys.version.split()[0])
PY
