"""
C07 — frozen instances are immutable yet still evolvable by copy.

Lock-step E1 over twins: every class of the family is generated twice, once with frozen=True
(directly, or - for plain subclasses - by inheritance) and once without; the same histories
(constructor + copy-on-write operations, the only ones that can build frozen states) are replayed
on both.  Every public operation of the alphabet is then executed on both twins:
 (1) every frozen instance ever created in the history is observably unchanged after the operation;
 (2) assignment, deletion and _inplace=True calls on the frozen twin raise FrozenInstanceError
     (or fail exactly like the twin when the arguments themselves are rejected);
 (3) a copy-on-write call returns an object distinct from the receiver whenever the twin's does;
 (4) outcome kind, exception family and canonical result equal those of the non-frozen twin.
"""
from __future__ import annotations

import copy

from mc import explore, grammar as G, snap
from mc import spec_ops as S
from mc.common import Counter, pmap, violation

PROP = "C07"


def frozen_twin(rec):
    r = copy.deepcopy(rec)
    r["opts"]["frozen"] = True
    r["name"] = rec["name"] + "_F"
    return r


def nested_frozen_parent():
    """non-frozen parent holding a frozen child (nested updates through a parent instance)"""
    return {"name": "ParentOfFrozen", "attrs": [{"kind": "int", "default": "lit"}, {"kind": "fleaf", "default": "mut"}], "opts": {}}


def fam(out):
    if not out.raised:
        return None
    n = type(out.exc).__name__
    if n == "FrozenInstanceError":
        return n
    return out.family()


def explore_twins(task):
    rec = task["rec"]
    C = Counter()
    recF = task.get("recF") or frozen_twin(rec)
    envT, envF = G.Env(rec), G.Env(recF)
    receiver_frozen = bool(recF.get("opts", {}).get("frozen"))
    P = {"raising": False, "invalid": True, "ctor": False, "small": True if (task["tier"] == "quick" or len(rec["attrs"]) > 1) else False}
    explore.warm(envT, rec, P)
    explore.warm(envF, recF, dict(P, inplace=(False,), assign=False))
    depth = task["depth"]
    inits = S.initial_histories(rec, P)[: (2 if task["tier"] == "quick" else 6)]
    bad_ctor_kwargs = next((kw for shape, kw in S.ctor_kwargs_variants(rec, dict(P, invalid=True)) if shape == "new:bad"), None)
    seen = {}
    frontier = []
    for h in inits:
        w = S.build(envT, h)
        if w.objs:
            k = snap.canon(w.objs, with_types=False)
            if k not in seen:
                seen[k] = h
                frontier.append(h)
    d = 0

    def sig(op, kind, **kw):
        o = rec.get("opts", {})
        s = {"kind": kind, "shape": op.get("shape", op["op"]), "attr_kind": explore.attr_kind_of(rec, op),
             "cls": rec["name"] if rec["name"].startswith("Comp") else "single",
             "opts": "+".join(sorted(k for k, v in o.items() if v)) or "plain", "inplace": bool(S.is_inplace(op))}
        s.update(kw)
        return s

    while frontier and d < depth:
        nxt = []
        for hist in frontier:
            wT0 = S.build(envT, hist)
            ops = S.gen_ops(rec, wT0, P)
            # assignment of names the class does NOT manage (a private name, a brand-new name): a frozen instance refuses those too
            ops = ops + [{"op": "set", "attr": "_scale", "value": 3, "shape": "set:private_name"},
                         {"op": "set", "attr": "brand_new", "value": 3, "shape": "set:unmanaged_name"}]
            for op in ops:
                wT = S.build(envT, hist)
                # frozen world: replay history remembering every frozen instance ever created
                wF = S.World(envF)
                G.CB.reset()
                envF.reset_tables()
                # frozen instances a "lookup" preparer hands out are frozen instances like any other
                ancestors = [(fz, snap.canon([fz])) for fz in frozen_instances([envF.ns["FTABLE"]])]
                for hop in hist:
                    o = S.execute(wF, hop)
                    for fz in frozen_instances(wF.objs[:1]):
                        if not any(fz is a for a, _ in ancestors):
                            ancestors.append((fz, snap.canon([fz])))
                if not wF.objs:
                    continue
                case = {"rec": rec, "history": [dict(o) for o in hist], "op": dict(op)}
                if task.get("recF"):
                    case["recF"] = task["recF"]
                # --- extra frozen-only passes (oracle 1 + refusal only; never used to build states) ---------------
                extra = []
                if receiver_frozen and (S.is_inplace(op) or op["op"] in ("set", "del")) and bad_ctor_kwargs is not None:
                    extra.append("after_failed_constructor")
                if receiver_frozen and recF.get("opts", {}).get("post_copy") and not S.is_inplace(op):
                    extra.append("post_copy_raises")
                for variant in extra:
                    wX = S.World(envF)
                    G.CB.reset()
                    envF.reset_tables()
                    for hop in hist:
                        S.execute(wX, hop)
                    if not wX.objs:
                        continue
                    anc = [(fz, snap.canon([fz])) for fz in frozen_instances(wX.objs[:1])]
                    if variant == "after_failed_constructor":
                        try:
                            envF.cls(**{k: envF.mk(v) for k, v in bad_ctor_kwargs.items()})
                        except Exception:
                            pass
                    else:
                        G.CB.arm = ("post_copy", G.CB.counts.get("post_copy", 0) + 1)
                    oX = S.execute(wX, op, adopt=False)
                    G.CB.arm = None
                    C.inc("evaluations")
                    C.inc("extra_frozen_runs")
                    for a, c0 in anc:
                        if snap.canon([a]) != c0:
                            C.viol(violation(PROP, sig(op, "frozen_instance_changed", raised=fam(oX), variant=variant),
                                             {"before": repr(c0)[:300], "after": repr(snap.canon([a]))[:300], "outcome": oX.brief()},
                                             dict(case, variant=variant)))
                            break
                    else:
                        if variant == "after_failed_constructor" and not oX.raised and not (
                                op["op"] == "call" and op.get("kw", {}).get("_if") is False):
                            oTx = S.execute(S.build(envT, hist), op, adopt=False)
                            noop = (not oTx.raised) and oTx.value is oTx.receiver
                            if not noop:
                                C.viol(violation(PROP, sig(op, "inplace_did_not_raise", variant=variant), {"frozen": oX.brief()}, dict(case, variant=variant)))
                cT0 = snap.canon([wT.objs[0]], with_types=False)
                oT = S.execute(wT, op, adopt=False)
                twin_noop = (not oT.raised) and oT.value is oT.receiver and snap.canon([oT.receiver], with_types=False) == cT0
                recvF = wF.objs[0]
                oF = S.execute(wF, op, adopt=False)
                C.inc("transitions")
                C.inc("evaluations", 2)
                C.outcome("frozen:" + (fam(oF) or "ok"))
                bad = False
                # (1) every frozen instance ever created is unchanged
                for a, c0 in ancestors:
                    if snap.canon([a]) != c0:
                        C.viol(violation(PROP, sig(op, "frozen_instance_changed", raised=fam(oF)),
                                         {"before": repr(c0)[:300], "after": repr(snap.canon([a]))[:300], "outcome": oF.brief()}, case))
                        bad = True
                        break
                # (2) in-place operations raise FrozenInstanceError
                if S.is_inplace(op) and not receiver_frozen:
                    # non-frozen parent holding frozen children: in-place calls behave like the twin's
                    if fam(oF) != fam(oT) or (not oF.raised and snap.canon([wF.objs[0]], with_types=False) != snap.canon([wT.objs[0]], with_types=False)):
                        C.viol(violation(PROP, sig(op, "twin_outcome_differs", frozen=fam(oF) or "ok", twin=fam(oT) or "ok"),
                                         {"frozen": oF.brief(), "twin": oT.brief()}, case))
                        bad = True
                elif S.is_inplace(op):
                    if oF.raised:
                        if fam(oF) != "FrozenInstanceError" and not (oT.raised and fam(oT) == fam(oF)):
                            C.viol(violation(PROP, sig(op, "inplace_wrong_exception", got=fam(oF), twin=fam(oT)),
                                             {"frozen": oF.brief(), "twin": oT.brief()}, case))
                            bad = True
                    elif not twin_noop:
                        C.viol(violation(PROP, sig(op, "inplace_did_not_raise"), {"frozen": oF.brief(), "twin": oT.brief()}, case))
                        bad = True
                else:
                    # (3) + (4) copy-on-write behaves exactly like the twin
                    if fam(oF) != fam(oT):
                        C.viol(violation(PROP, sig(op, "twin_outcome_differs", frozen=fam(oF) or "ok", twin=fam(oT) or "ok"),
                                         {"frozen": oF.brief(), "twin": oT.brief()}, case))
                        bad = True
                    elif not oF.raised:
                        rF, rT = oF.result, oT.result
                        if (rT is oT.receiver) != (rF is recvF):
                            C.viol(violation(PROP, sig(op, "result_identity_differs", frozen_returns_receiver=rF is recvF),
                                             {"frozen": oF.brief(), "twin": oT.brief()}, case))
                            bad = True
                        elif snap.canon([rF], with_types=False) != snap.canon([rT], with_types=False):
                            C.viol(violation(PROP, sig(op, "twin_result_differs"),
                                             {"frozen": repr(snap.canon([rF], with_types=False))[:300],
                                              "twin": repr(snap.canon([rT], with_types=False))[:300]}, case))
                            bad = True
                if bad:
                    continue
                C.inc("traces_validated_against_impl")
                if oT.raised or oF.raised or (S.is_inplace(op) and receiver_frozen):
                    C.nontrivial((len(hist), S.op_label(op), repr(op.get("args")), repr(op.get("kw")), repr(hist[-1:])))
                    continue
                nobjs = explore.next_objs(wT, op, oT)  # in-place edits already happened on wT.objs
                key = snap.canon(nobjs, with_types=False)
                if key not in seen:
                    C.nontrivial((len(hist), S.op_label(op), repr(op.get("args")), repr(op.get("kw")), repr(hist[-1:])))
                    if len(seen) < task.get("max_states", 500):
                        seen[key] = hist + (op,)
                        nxt.append(hist + (op,))
        frontier = nxt
        d += 1
    C.rec["states"] = len(seen)
    C.rec["extra"]["max_depth"] = d
    C.rec["extra"]["classes"] = 2
    C.sample({"class": recF["name"], "source": envF.source[:300],
              "history": [S.op_label(o) for o in max(seen.values(), key=len)]})
    return C.rec


# ------------------------------------------------------------------------------------------------
# handcrafted scenarios around the "still initialising" licence and class-wide do_not_copy
# ------------------------------------------------------------------------------------------------
SCEN_SRC = '''
KEEP = []

@spec_class(frozen=True)
class CopyInPostInit:
    x: int = 1
    xs: List[int] = [1]
    def __post_init__(self):
        KEEP.append(self.with_x(5))          # a copy taken while the instance is still being initialised
        KEEP.append(copy.deepcopy(self))

@spec_class(frozen=True)
class EscapesFailedInit:
    x: int = 1
    xs: List[int] = [1]
    def __post_init__(self):
        KEEP.append(self)                     # the instance escapes ...
        if self.x == 13:
            raise RuntimeError("constructor fails")   # ... from a constructor that then fails

@spec_class(frozen=True, do_not_copy=True)
class FrozenNoCopy:
    x: int = 1
    xs: List[int] = [1]

ATTACK = []

@spec_class(frozen=True)
class AttacksPeer:
    x: int = 1
    xs: List[int] = [1]
    def __post_init__(self):
        for attack in ATTACK:                 # while THIS instance is being initialised, a finished peer is attacked
            attack()
'''


def scenario_targets(name):
    """-> list of (label, frozen instance) that must refuse every change"""
    ns = {"__name__": "verif_c07_scen", "copy": copy}
    exec(compile(G.PRELUDE, "<c07-prelude>", "exec", dont_inherit=True), ns)
    exec(compile(SCEN_SRC, "<c07-scenarios>", "exec", dont_inherit=True), ns)
    if name == "copy_in_post_init":
        ns["CopyInPostInit"]()
        return [("with_x copy taken in __post_init__", ns["KEEP"][0]), ("deepcopy taken in __post_init__", ns["KEEP"][1])]
    if name == "escapes_failed_init":
        try:
            ns["EscapesFailedInit"](x=13)
        except RuntimeError:
            pass
        return [("instance that escaped a failed constructor", ns["KEEP"][0])]
    if name == "frozen_do_not_copy":
        return [("instance of a frozen do_not_copy=True class", ns["FrozenNoCopy"](x=2, xs=[5]))]
    raise ValueError(name)


SCEN_OPS = {
    "assign": lambda o: setattr(o, "x", 9),
    "delete": lambda o: delattr(o, "x"),
    "with_inplace": lambda o: o.with_x(9, _inplace=True),
    "with_item_inplace": lambda o: o.with_x_item(7, _inplace=True) if hasattr(o, "with_x_item") else o.with_xs([7], _inplace=True),
    "update_inplace": lambda o: o.update(x=9, _inplace=True),
    "reset_inplace": lambda o: o.reset_x(_inplace=True) if o.x != 1 else o.with_x(3, _inplace=True),
    "with_copy": lambda o: o.with_x(9),
    "with_list_copy": lambda o: o.with_xs([7]),
    "transform_copy": lambda o: o.transform_x(lambda v: v + 1),
    "reset_copy": lambda o: o.reset(),
    "reset_attr_copy": lambda o: o.reset_x() if o.x != 1 else o.with_x(3),
    "update_copy": lambda o: o.update(x=9),
    "transform_top_copy": lambda o: o.transform(x=lambda v: v + 1),
    "update_list_copy": lambda o: o.update(xs=[8]),
}


def peer_attack_case(opname):
    """the licence to write is per instance: while one instance of a frozen class is inside its constructor, every other
    (finished) instance of that class still refuses every change"""
    ns = {"__name__": "verif_c07_scen", "copy": copy}
    exec(compile(G.PRELUDE, "<c07-prelude>", "exec", dont_inherit=True), ns)
    exec(compile(SCEN_SRC, "<c07-scenarios>", "exec", dont_inherit=True), ns)
    cls = ns["AttacksPeer"]
    peer = cls(x=2, xs=[5])
    before = snap.canon([peer])
    seen = {}

    def attack():
        try:
            SCEN_OPS[opname](peer)
            seen["raised"] = None
        except Exception as e:
            seen["raised"] = type(e).__name__

    ns["ATTACK"].append(attack)
    try:
        cls()
    finally:
        ns["ATTACK"].clear()
    probs = []
    raised = seen.get("raised", "<not run>")
    if snap.canon([peer]) != before:
        probs.append(f"finished peer changed by {opname} issued from another instance's __post_init__ ({'raised ' + raised if raised else 'returned'})")
    elif ("inplace" in opname or opname in ("assign", "delete")) and raised != "FrozenInstanceError":
        probs.append(f"finished peer: {opname} from another instance's __post_init__ {'raised ' + raised if raised else 'was accepted'} instead of FrozenInstanceError")
    return probs


def scenario_case(name, opname):
    if name == "peer_during_post_init":
        return peer_attack_case(opname)
    probs = []
    for label, inst in scenario_targets(name):
        before = snap.canon([inst])
        try:
            SCEN_OPS[opname](inst)
            raised = None
        except Exception as e:
            raised = type(e).__name__
        if snap.canon([inst]) != before:
            probs.append(f"{label}: changed by {opname} ({'raised ' + raised if raised else 'returned'})")
        elif "inplace" in opname or opname in ("assign", "delete"):
            if raised != "FrozenInstanceError":
                probs.append(f"{label}: {opname} {'raised ' + raised if raised else 'was accepted'} instead of FrozenInstanceError")
    return probs


# ------------------------------------------------------------------------------------------------
# frozen classes are constructed, and evolved through descriptors, exactly like their unfrozen twins
# ------------------------------------------------------------------------------------------------
TWIN_SRC = {
    "post_init_assigns": """
@spec_class(frozen={frozen})
class T:
    x: int = 1
    def __post_init__(self):
        self.double = self.x * 2          # completing the new instance is part of constructing it
""",
    "overflow": """
@spec_class(frozen={frozen}, init_overflow_attr="extra")
class T:
    x: int = 1
""",
    "keyed_overflow_post_init": """
@spec_class(frozen={frozen}, key="name", init_overflow_attr="extra")
class T:
    name: str
    x: int = 1
    def __post_init__(self):
        self.tag = self.name + "!"
""",
    "setter_and_deleter": """
@spec_class(frozen={frozen})
class T:
    unit: str = "C"
    value: float
    @property
    def value(self):
        return self.__dict__.get("stored", 0.0)
    @value.setter
    def value(self, v):
        self.stored = v                     # the property keeps its value in another attribute
    @value.deleter
    def value(self):
        self.stored = None
""",
    "invalidated_property_with_setter": """
@spec_class(frozen={frozen})
class T:
    unit: str = "C"
    value: float
    @spec_property(invalidated_by=["unit"])
    def value(self):
        return self.__dict__.get("stored", 0.0)
    @value.setter
    def value(self, v):
        self.stored = v
    @value.deleter
    def value(self):
        self.__dict__.pop("stored", None)
""",
}
TWIN_CALLS = {
    "construct": lambda T: T(**({"name": "n"} if "name" in T.__spec_class__.attrs else {})),
    "construct_kw": lambda T: T(x=5, **({"name": "n"} if "name" in T.__spec_class__.attrs else {})) if "x" in T.__spec_class__.attrs else T(unit="K"),
    "construct_extra": lambda T: T(zzz=3, **({"name": "n"} if "name" in T.__spec_class__.attrs else {})),
    "with_first": lambda T: TWIN_CALLS["construct"](T).with_x(7) if "x" in T.__spec_class__.attrs else TWIN_CALLS["construct"](T).with_unit("F"),
    "with_value": lambda T: TWIN_CALLS["construct"](T).with_value(2.5),
    "with_value_then_unit": lambda T: TWIN_CALLS["construct"](T).with_value(2.5).with_unit("F"),
    "reset_value": lambda T: TWIN_CALLS["construct"](T).with_value(2.5).reset_value(),
    "reset": lambda T: TWIN_CALLS["construct"](T).with_value(2.5).reset() if "value" in T.__spec_class__.attrs else TWIN_CALLS["construct"](T).reset(),
    "update": lambda T: TWIN_CALLS["construct"](T).update(value=1.5, unit="K") if "value" in T.__spec_class__.attrs else TWIN_CALLS["construct"](T).update(x=3),
}


def twin_construct_case(shape, call):
    """-> (outcome of the unfrozen twin, outcome of the frozen class)"""
    outs = []
    for frozen in (False, True):
        ns = {"__name__": "verif_c07_twin"}
        exec(compile(G.PRELUDE, "<c07-prelude>", "exec", dont_inherit=True), ns)
        exec(compile(TWIN_SRC[shape].format(frozen=frozen), "<c07-twin>", "exec", dont_inherit=True), ns)
        try:
            r = TWIN_CALLS[call](ns["T"])
            outs.append(("ok", repr(sorted((k, repr(v)) for k, v in vars(r).items() if not k.startswith("__")))))
        except Exception as e:
            outs.append(("raised", type(e).__name__))
    return outs


def twin_construct_worker(task):
    C = Counter()
    for shape in TWIN_SRC:
        for call in TWIN_CALLS:
            twin, frozen = twin_construct_case(shape, call)
            C.inc("states")
            C.inc("transitions")
            C.inc("evaluations")
            case = {"part": "twin_construct", "shape": shape, "call": call}
            if twin[0] == "raised" and frozen[0] == "raised":
                continue  # the call does not apply to this shape (judged only where the twin succeeds)
            if twin != frozen:
                C.viol(violation(PROP, {"part": "twin_construct", "shape": shape, "call": call, "kind": "frozen_differs_from_twin",
                                        "frozen": frozen[1] if frozen[0] == "raised" else "ok"}, {"twin": twin, "frozen": frozen}, case))
            else:
                C.inc("traces_validated_against_impl")
                C.nontrivial((shape, call))
    C.sample({"part": "twin_construct", "shapes": list(TWIN_SRC), "calls": list(TWIN_CALLS)})
    return C.rec


def scenarios_worker(task):
    C = Counter()
    for name in ("copy_in_post_init", "escapes_failed_init", "frozen_do_not_copy", "peer_during_post_init"):
        for opname in SCEN_OPS:
            probs = scenario_case(name, opname)
            C.inc("states")
            C.inc("transitions")
            C.inc("evaluations")
            case = {"part": "scenario", "scenario": name, "op": opname}
            if probs:
                C.viol(violation(PROP, {"part": "scenario", "scenario": name, "op": opname, "kind": "frozen_instance_not_protected"}, {"problems": probs[:3]}, case))
            else:
                C.inc("traces_validated_against_impl")
                C.nontrivial((name, opname))
    C.sample({"part": "scenario", "scenarios": 4, "ops": list(SCEN_OPS)})
    return C.rec


def dispatch(task):
    if task.get("part") == "twin_construct":
        return twin_construct_worker(task)
    return scenarios_worker(task) if task.get("part") == "scenario" else explore_twins(task)


def frozen_instances(roots):
    out, seen_ids, stack = [], set(), list(roots)
    while stack:
        o = stack.pop()
        k = snap.kind_of(o)
        if k == "leaf" or id(o) in seen_ids:
            continue
        seen_ids.add(id(o))
        if k == "spec":
            try:
                if type(o).__spec_class__.frozen:
                    out.append(o)
            except Exception:
                pass
        stack.extend(c for _, c in snap.children(o, k))
    return out


def seen_key_of(seen, hist):
    for k, h in seen.items():
        if h is hist:
            return k
    return None


def run_case(case):
    if case.get("part") == "twin_construct":
        twin, frozen = twin_construct_case(case["shape"], case["call"])
        if twin != frozen and not (twin[0] == "raised" and frozen[0] == "raised"):
            return [violation(PROP, {"part": "twin_construct", "shape": case["shape"], "call": case["call"], "kind": "frozen_differs_from_twin",
                                     "frozen": frozen[1] if frozen[0] == "raised" else "ok"}, {"twin": twin, "frozen": frozen}, case)]
        return []
    if case.get("part") == "scenario":
        probs = scenario_case(case["scenario"], case["op"])
        return [violation(PROP, {"part": "scenario", "scenario": case["scenario"], "op": case["op"], "kind": "frozen_instance_not_protected"},
                          {"problems": probs[:3]}, case)] if probs else []
    return replay_one(case["rec"], tuple(case["history"]), case["op"], case.get("recF"))


def replay_one(rec, hist, op, recF=None):
    """straight-line re-execution of one lock-step transition (uses the explorer body with a
    one-element frontier and alphabet)"""
    import mc.spec_ops as SO

    orig_gen, orig_init = SO.gen_ops, SO.initial_histories
    try:
        SO.gen_ops = lambda r, w, P: [op]
        SO.initial_histories = lambda r, P: [hist]
        recs = explore_twins({"rec": rec, "recF": recF, "depth": 1, "tier": "thorough", "max_states": 5})
    finally:
        SO.gen_ops, SO.initial_histories = orig_gen, orig_init
    return recs["violations"]


def applicable(rec):
    o = rec.get("opts", {})
    if o.get("do_not_copy") is True or o.get("frozen"):
        return False
    return True


def register_alias_kinds():
    """C07-local attribute kinds (not in G.ALL_KINDS, so no other check and no reference model sees them):
    an int-typed Alias of the first attribute `v`, local-override and passthrough; the twin oracle needs
    no semantics for them"""
    base = dict(G.KINDS["int"])
    G.KINDS.setdefault("alias", dict(base, name="al", lit="Alias('v')"))
    G.KINDS.setdefault("aliaspt", dict(base, name="ap", lit="Alias('v', passthrough=True)"))
    G.KINDS.setdefault("aliasfb", dict(base, name="af", lit="Alias('missing_target', fallback=3)"))


register_alias_kinds()


def alias_records():
    G.KINDS.setdefault("aliasdot", dict(G.KINDS["int"], name="ad", lit="Alias('leaf.x', passthrough=True)"))
    return [
        G.composite("AliasLocal", [("int", "lit"), ("alias", "lit")]),
        G.composite("AliasPass", [("int", "lit"), ("aliaspt", "lit")]),
        G.composite("AliasFallback", [("int", "lit"), ("aliasfb", "lit"), ("nums", "mut")]),
    ]


def main(run):
    from props.c01 import tasks_for

    tasks = [t for t in tasks_for(run, "props.c07", PROP) if applicable(t["rec"])]
    d = 2 if run.tier == "quick" else 3
    for kT, kF in (("leaf", "fleaf"), ("kids", "fkids")):
        tasks.append({"rec": {"name": "LookupT" + kT, "attrs": [{"kind": kT, "default": "none" if kT == "leaf" else "mut", "lookup": True},
                                                            {"kind": "int", "default": "lit"}], "opts": {}},
                      "recF": {"name": "LookupF" + kT, "attrs": [{"kind": kF, "default": "none" if kT == "leaf" else "mut", "lookup": True},
                                                             {"kind": "int", "default": "lit"}], "opts": {"leaf_is_frozen": True, "frozen": True}},
                      "depth": d, "tier": run.tier, "max_states": 600})
    # frozen-ness inherited by a decorated subclass that does not restate it
    for base in (G.composite("FrozenInherited", [("int", "lit"), ("nums", "mut"), ("leaf", "mut")], inherit="spec_sub_add"),
                 G.single("nums", "mut", inherit="spec_sub_redefault")):
        recF = frozen_twin(base)
        recF["opts"]["sub_inherits_policy"] = True
        recF["name"] = base["name"] + "_FI"
        tasks.append({"rec": base, "recF": recF, "depth": d, "tier": run.tier, "max_states": 600})
    # passthrough alias INTO a nested frozen value that is carried by reference (do_not_copy): both twins hold a frozen
    # child; a write through the alias must be refused by the child in both, and never land on the shared child
    dot = {"name": "AliasDotT", "attrs": [{"kind": "fleaf", "default": "mut"}, {"kind": "aliasdot", "default": "lit"}],
           "opts": {"leaf_is_frozen": True, "do_not_copy": ["leaf"]}}
    dotF = copy.deepcopy(dot)
    dotF["name"], dotF["opts"]["frozen"] = "AliasDotF", True
    tasks.append({"rec": dot, "recF": dotF, "depth": d, "tier": run.tier, "max_states": 600})
    tasks.append({"rec": G.single("nums", "mut", post_copy=True), "depth": d, "tier": run.tier, "max_states": 600})
    tasks.append({"rec": G.single("nums", "mut", post_copy="assigns"), "depth": d, "tier": run.tier, "max_states": 600})
    # attributes served by a property whose setter writes a private attribute: the write happens in USER code, on the private copy
    tasks.append({"rec": {"name": "SetterInt", "attrs": [{"kind": "int", "default": "none", "prop": "setter"}, {"kind": "nums", "default": "mut"}], "opts": {}},
                  "depth": d, "tier": run.tier, "max_states": 600})
    tasks.append({"rec": {"name": "SetterNums", "attrs": [{"kind": "nums", "default": "none", "prop": "setter"}, {"kind": "int", "default": "lit"}], "opts": {}},
                  "depth": d, "tier": run.tier, "max_states": 600})
    tasks.append({"rec": G.composite("FrozenPostCopyAssigns", [("int", "lit"), ("leaf", "mut")], post_copy="assigns"), "depth": d, "tier": run.tier, "max_states": 600})
    tasks.append({"rec": G.composite("FrozenPostCopy", [("int", "lit"), ("leaf", "mut"), ("kids", "mut")], post_copy=True), "depth": d, "tier": run.tier, "max_states": 600})
    for rec in alias_records():
        tasks.append({"rec": rec, "depth": d, "tier": run.tier, "max_states": 600, "module": "props.c07", "prop": PROP})
    for kT, kF, nm in (("leaf", "fleaf", "ParentLeaf"), ("kids", "fkids", "ParentKids")):
        for dflt in ("mut", "none"):
            tasks.append({"rec": {"name": nm + dflt + "T", "attrs": [{"kind": "int", "default": "lit"}, {"kind": kT, "default": dflt}], "opts": {}},
                          "recF": {"name": nm + dflt + "F", "attrs": [{"kind": "int", "default": "lit"}, {"kind": kF, "default": dflt}],
                                   "opts": {"leaf_is_frozen": True}},
                          "depth": d, "tier": run.tier, "max_states": 600})
    tasks.append({"part": "scenario"})
    tasks.append({"part": "twin_construct"})
    for rec in pmap(dispatch, tasks):
        run.merge(rec)
    run.add(rule=(
        "lock-step BFS over twins (frozen=True vs not) of every class of the family; histories = constructor + copy-on-write "
        "operations; every operation of the alphabet (assignment, deletion, helpers with and without _inplace, deepcopy, nested "
        "keyword updates) executed on both twins from every state; states/transitions count twin pairs; non-trivial = raises, is "
        "in-place, or reaches a new state"
    ))
    run.assumptions += [
        "an in-place call whose arguments are rejected (unknown keyword, ill-typed value) may fail with the twin's exception instead of FrozenInstanceError",
        "observable equality of results is canonical structure + aliasing modulo the class name",
    ]
