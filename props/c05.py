"""
C05 — scalar and top-level helpers compute exactly the documented new state.

E1 over the class family on the documented alphabet (with_/update_/transform_/reset_<attr>,
assignment, deletion, update / transform / reset; flags _inplace and _if; conforming values; pure
transforms).  Oracles per transition:
 (1) state: {attr: canonical value} of the result equals the reference `refspec` applied to the
     pre-state (independent executable model of the documentation, below);
 (2) identity: copy mode returns a new object and leaves the receiver's state alone, in-place
     mode returns the receiver;
 (3) model-free differentials: copy result == in-place result on a replayed clone;
     obj.a = v == with_a(v, _inplace=True); update(a=v, b=w) == with_a(v).with_b(w);
     with_a(**kw) == with_a(Nested(**kw));
 (4) no-ops: _if=False and UNCHANGED return the receiver itself, unchanged; with_a(MISSING) ==
     with_a().
"""
from __future__ import annotations

import copy

from mc import explore, grammar as G, snap
from mc import spec_ops as S
from mc.common import pmap
from mc.ref import reftype

PROP = "C05"
MISS = "<missing>"


# ------------------------------------------------------------------------------------------------
# refspec: the documented semantics
# ------------------------------------------------------------------------------------------------
def attr_by_name(rec, n):
    for a in rec["attrs"]:
        if G.attr_name(a) == n:
            return a
    return None


def item_prep(env, rec, a, x):
    kind = a["kind"]
    if G.attr_name(a) in rec.get("opts", {}).get("item_preparers", []) and kind in G.ITEM_PREPARERS:
        x = G.ITEM_PREPARERS[kind](x)
    if kind in ("units", "parts", "links", "marks") and isinstance(x, str):
        x = env.Keyed(x)
    return x


def empty_container(env, kind):
    if kind in G.SEQ_KINDS and kind != "links":
        return []
    if kind in G.MAP_KINDS:
        return {}
    if kind == "links":
        return env.KeyedList()
    if kind == "marks":
        return env.KeyedSet()
    return set()


class ModelTypeError(Exception):
    pass


def PREP(env, rec, a, v):
    """value as stored after preparation (preparer -> dict-as-keywords -> container normalisation
    -> type check)"""
    v = _PREP(env, rec, a, v)
    if not reftype.conforms(a["kind"], v, env)[0]:
        raise ModelTypeError(f"{G.attr_name(a)} <- {v!r:.60}")
    return v


def _PREP(env, rec, a, v):
    kind = a["kind"]
    n = G.attr_name(a)
    if n in rec.get("opts", {}).get("preparers", []):
        v = G.PREPARERS[kind](v)
    if kind in ("leaf",) and isinstance(v, dict):
        v = env.Leaf(**v)
    if kind in G.COLLECTION_KINDS:
        has_item_prep = n in rec.get("opts", {}).get("item_preparers", [])
        if v is None:
            return empty_container(env, kind)
        if not reftype.conforms(kind, v, env)[0]:
            new = empty_container(env, kind)
            if kind in G.MAP_KINDS:
                for k, x in v.items():
                    new[k] = item_prep(env, rec, a, x)
            elif kind in G.SEQ_KINDS:
                for x in v:
                    new.append(item_prep(env, rec, a, x))
            else:
                for x in v:
                    new.add(item_prep(env, rec, a, x))
            return new
        if has_item_prep and len(v):
            v = copy.deepcopy(v)
            if kind in G.MAP_KINDS:
                for k in list(v):
                    v[k] = item_prep(env, rec, a, v[k])
            elif kind in G.SEQ_KINDS:
                for i in range(len(v)):
                    v[i] = item_prep(env, rec, a, v[i])
            else:
                for x in list(v):
                    y = item_prep(env, rec, a, x)
                    v.discard(x)
                    v.add(y)
    return v


def default_of(env, rec, a):
    """fresh default value per the class hierarchy, or MISS"""
    inh = rec.get("opts", {}).get("inherit", "none")
    first = rec["attrs"][0] is a
    if first and inh in ("spec_sub_redefault", "plain_sub_redefault", "spec_sub_reprepare_redefault"):
        return env.mk(G.REDEFAULT_SPEC[a["kind"]])
    spec = G.default_spec(a["kind"], a.get("default", "none"))
    if spec == ["MISSING"]:
        return MISS
    v = env.mk(spec)
    return v


def construct_nested(env, kind, kw):
    return env.Leaf(**kw)


SKIP = object()


class St(dict):
    """model state: every successful write / deletion of an attribute resets the attributes
    declared invalidated_by it (transitively), as documented for Attr(invalidated_by=...)"""

    def __init__(self, d, env, rec):
        super().__init__(d)
        self.env, self.rec = env, rec
        self.inv = rec.get("opts", {}).get("invalidated_by", {})

    def _invalidate(self, n, seen=()):
        for d, deps in self.inv.items():
            if (n in deps or "*" in deps) and d != n and d not in seen:
                a = attr_by_name(self.rec, d)
                dv = default_of(self.env, self.rec, a)
                if dv is MISS:
                    had = d in self
                    dict.pop(self, d, None)
                else:
                    dict.__setitem__(self, d, PREP(self.env, self.rec, a, dv))
                self._invalidate(d, seen + (n,))

    def __setitem__(self, n, v):
        dict.__setitem__(self, n, v)
        self._invalidate(n)

    def pop(self, n, *a):
        had = n in self
        r = dict.pop(self, n, *a)
        if had:
            self._invalidate(n)
        return r


def ref_apply(env, rec, state, op):
    """state: {attr: value(deep copy)}; returns new state dict, or SKIP (undocumented form)"""
    st = St(state, env, rec)
    kind = op["op"]
    names = [G.attr_name(a) for a in rec["attrs"]]

    def mk(x):
        # ["attr", name]: the object currently stored at another attribute of the receiver; the reference is
        # value-based, so the two attributes merely start out equal - whatever is then done to one of them
        # through the API must not show in the other (the API never edits a stored value in place)
        if isinstance(x, list) and x[:1] == ["attr"]:
            return copy.deepcopy(dict.__getitem__(st, x[1]))
        return env.mk(x)

    if kind == "set":
        a = attr_by_name(rec, op["attr"])
        st[op["attr"]] = PREP(env, rec, a, mk(op["value"]))
        return st
    if kind == "del":
        a = attr_by_name(rec, op["attr"])
        d = default_of(env, rec, a)
        if d is MISS:
            st.pop(op["attr"], None)
        else:
            st[op["attr"]] = PREP(env, rec, a, d)
        return st
    m = op["m"]
    args = [mk(x) for x in op.get("args", [])]
    kw = {k: mk(v) for k, v in op.get("kw", {}).items() if not k.startswith("_")}
    if op.get("kw", {}).get("_if") is False:
        return st
    MISSING = env.MISSING
    import spec_classes

    UNCH = spec_classes.UNCHANGED

    def set_attr(n, v):
        a = attr_by_name(rec, n)
        if v is UNCH:
            return
        st[n] = PREP(env, rec, a, v)

    if m == "reset":
        for a in rec["attrs"]:
            n = G.attr_name(a)
            d = default_of(env, rec, a)
            if d is MISS:
                st.pop(n, None)
            else:
                st[n] = PREP(env, rec, a, d)
        return st
    if m == "update":
        if args:
            return SKIP  # a complete replacement instance together with keywords: undocumented combination
        for n, v in kw.items():
            if v is MISSING:
                continue
            set_attr(n, v)
        return st
    if m == "transform":
        for n, f in kw.items():
            if n not in st:
                return SKIP  # transform of a missing attribute: undocumented
            r = f(copy.deepcopy(st[n]))
            if r is not MISSING:
                set_attr(n, r)
        return st
    pre, n = m.split("_", 1)
    a = attr_by_name(rec, n)
    K = G.KINDS[a["kind"]]
    if pre == "reset":
        d = default_of(env, rec, a)
        if d is MISS:
            st.pop(n, None)
        else:
            st[n] = PREP(env, rec, a, d)
        return st
    if pre == "with":
        if args and args[0] is UNCH:
            return st
        v = args[0] if args and args[0] is not MISSING else MISSING
        if v is MISSING:
            if kw and K.get("nested"):
                st[n] = PREP(env, rec, a, construct_nested(env, a["kind"], kw))
                return st
            if K.get("nested"):
                st[n] = env.Leaf()
                return st
            if a["kind"] in G.COLLECTION_KINDS:
                st[n] = empty_container(env, a["kind"])
                return st
            return SKIP  # with_a() on a plain scalar type: undocumented
        if kw:
            return SKIP  # value and nested keywords together: undocumented
        st[n] = PREP(env, rec, a, v)
        return st
    if pre == "update":
        if args and args[0] is UNCH:
            return st
        if args and args[0] is not MISSING:
            if kw:
                return SKIP
            st[n] = PREP(env, rec, a, args[0])
            return st
        if not kw:
            return st if n in st else SKIP  # nothing to update (on a missing value: undocumented)
        if n not in st:
            st[n] = PREP(env, rec, a, construct_nested(env, a["kind"], kw))
            return st
        b = copy.deepcopy(st[n])
        for k, v in kw.items():
            if v is not MISSING:
                setattr(b, k, v)
        st[n] = PREP(env, rec, a, b)
        return st
    if pre == "transform":
        if n not in st:
            return SKIP
        b = copy.deepcopy(st[n])
        if args and args[0] is not None:  # (_transform=None is the advertised default: no whole-value transform)
            b = copy.deepcopy(args[0](b))  # (the transform may hand back an object that exists elsewhere: the model edits its own copy)
        for k, f in kw.items():
            r = f(getattr(b, k))
            if r is not MISSING:
                setattr(b, k, r)
        if b is MISSING:
            return st
        st[n] = PREP(env, rec, a, b)
        return st
    raise ValueError(op)


# ------------------------------------------------------------------------------------------------
def state_of(inst, rec):
    d = vars(inst)
    return {G.attr_name(a): d[G.attr_name(a)] for a in rec["attrs"] if G.attr_name(a) in d}


def state_canon(st):
    return {n: snap.canon([v]) for n, v in st.items()}


class Oracle:
    faults = ()

    def __init__(self, task):
        self.task = task
        self.quick = task.get("tier") == "quick"
        self.stats = {"differentials": 0, "model_skips": 0}

    def applies(self, rec):
        o = rec.get("opts", {})
        return not o.get("frozen") and o.get("do_not_copy") is not True

    def profile(self, rec):
        P = {"raising": False, "invalid": False, "ctor": False, "element": False, "deepcopy": False}
        if self.quick or len(rec["attrs"]) > 1:
            P["small"] = True
        return P

    def checked(self, op):
        return True

    def pre(self, ctx):
        t = ctx.op.get("t", 0)
        recv = ctx.world.objs[t]
        ctx.store["recv"] = recv
        ctx.store["pre_state"] = copy.deepcopy(state_of(recv, ctx.rec))
        ctx.store["pre_canon"] = state_canon(state_of(recv, ctx.rec))
        ctx.store["pre_done"] = True

    def post(self, ctx, out):
        env, rec, op = ctx.env, ctx.rec, ctx.op
        v = []
        recv = ctx.store["recv"]
        inplace = S.is_inplace(op)
        try:
            exp = ref_apply(env, rec, ctx.store["pre_state"], op)
        except ModelTypeError as e:
            if not out.raised or out.family() not in ("TypeError", "ValueError"):
                return [explore.violation(PROP, ctx.sig("should_raise_type_error", got=out.family()),
                                          {"model": str(e), "outcome": out.brief()}, ctx.case())]
            return []
        except Exception as e:
            exp = ("model_raised", e)
        if exp is SKIP:
            self.stats["model_skips"] += 1
            return []
        if isinstance(exp, tuple) and exp and exp[0] == "model_raised":
            # the model only raises where the library must raise as well (construction of a nested value failing)
            if not out.raised:
                v.append(explore.violation(PROP, ctx.sig("should_raise"), {"model": repr(exp[1])[:200], "outcome": out.brief()}, ctx.case()))
            return v
        shape = op.get("shape", "")
        if out.raised:
            n = op.get("attr") or (op.get("m", "").split("_", 1) + [""])[1]
            a = attr_by_name(rec, n)
            missing_no_default = a is not None and n not in ctx.store["pre_state"] and default_of(env, rec, a) is MISS
            if (shape in ("reset_attr", "del")) and out.family() == "AttributeError" and missing_no_default:
                return []  # resetting an attribute that is already missing and has no default
            v.append(explore.violation(PROP, ctx.sig("unexpected_raise", got=out.family()),
                                       {"outcome": out.brief(), "expected_state": {k: repr(c)[:120] for k, c in state_canon(exp).items()}}, ctx.case()))
            return v
        holder = recv if inplace else out.result
        noop_call = op["op"] == "call" and (op.get("kw", {}).get("_if") is False or "UNCHANGED" in shape or shape == "update:one_MISSING")
        # (2) identity
        if op["op"] == "call":
            if inplace and out.value is not recv:
                v.append(explore.violation(PROP, ctx.sig("inplace_did_not_return_receiver"), {"outcome": out.brief()}, ctx.case()))
            if noop_call:
                if out.value is not recv:
                    v.append(explore.violation(PROP, ctx.sig("noop_did_not_return_receiver"), {"outcome": out.brief()}, ctx.case()))
                holder = out.value if isinstance(out.value, type(recv)) else recv
            elif not inplace:
                if out.value is recv and state_canon(exp) != ctx.store["pre_canon"]:
                    v.append(explore.violation(PROP, ctx.sig("copy_mode_returned_receiver"), {"outcome": out.brief()}, ctx.case()))
                if state_canon(state_of(recv, rec)) != ctx.store["pre_canon"]:
                    v.append(explore.violation(PROP, ctx.sig("receiver_state_changed"), {}, ctx.case()))
        # (1) state
        if not isinstance(holder, type(recv)):
            v.append(explore.violation(PROP, ctx.sig("result_not_an_instance"), {"outcome": out.brief()}, ctx.case()))
            return v
        got = state_canon(state_of(holder, rec))
        want = state_canon(exp)
        if got != want:
            diff = sorted(k for k in set(got) | set(want) if got.get(k) != want.get(k))
            v.append(explore.violation(PROP, ctx.sig("wrong_state", attr=explore.attr_kind_of(rec, op)),
                                       {"attrs": diff, "expected": {k: repr(want.get(k, MISS))[:200] for k in diff},
                                        "got": {k: repr(got.get(k, MISS))[:200] for k in diff}}, ctx.case()))
        if not v:
            v += self.differentials(ctx, out, got)
        return v

    # (3) model-free differentials, each on freshly replayed objects
    def differentials(self, ctx, out, got):
        env, rec, op = ctx.env, ctx.rec, ctx.op
        v = []

        def run(ops):
            w = S.build(env, ctx.history)
            o = None
            for x in ops:
                o = S.execute(w, x, adopt=True)
                if o.raised:
                    return None
            return state_canon(state_of(w.objs[op.get("t", 0)], rec))

        alts = []
        if op["op"] == "call" and not S.is_inplace(op) and op.get("kw", {}).get("_if") is not False:
            alts.append(("copy_vs_inplace", [dict(op, kw=dict(op["kw"], _inplace=True))]))
        if op["op"] == "set":
            alts.append(("setattr_vs_with_inplace", [S._call(f"with_{op['attr']}", "with:conf", op["value"], _inplace=True)]))
        if op["op"] == "call" and op["m"] == "update" and op.get("shape") == "update:pair" and not S.is_inplace(op):
            ks = [k for k in op["kw"] if not k.startswith("_")]
            alts.append(("update_vs_chain", [S._call(f"with_{k}", "with:conf", op["kw"][k]) for k in ks]))
        if op.get("shape") == "with:kw" and not S.is_inplace(op):
            kws = {k: x for k, x in op["kw"].items() if not k.startswith("_")}
            alts.append(("kw_vs_nested_instance", [S._call(op["m"], "with:conf", ["Leaf", kws])]))
        if op.get("shape") == "with:MISSING" and not S.is_inplace(op):
            alts.append(("with_MISSING_vs_noargs", [S._call(op["m"], "with:noargs")]))
        for name, ops in alts:
            self.stats["differentials"] += 1
            r = run(ops)
            if r is None and name == "with_MISSING_vs_noargs":
                continue
            if r != got:
                v.append(explore.violation(PROP, ctx.sig("differential_mismatch", pair=name),
                                           {"this": {k: repr(c)[:150] for k, c in got.items()},
                                            "other": None if r is None else {k: repr(c)[:150] for k, c in r.items()}}, ctx.case()))
        return v


def make_oracle(task):
    return Oracle(task)


def run_case(case):
    return explore.replay_case(case, "props.c05")


def main(run):
    from props.c01 import tasks_for

    tasks = tasks_for(run, "props.c05", PROP)
    for rec in pmap(explore.explore_class, tasks):
        run.merge(rec)
    run.add(rule=(
        "BFS over histories of each generated class on the documented alphabet (scalar helpers in every documented call form, "
        "assignment, deletion, update for singles and ordered pairs, transform, reset; _inplace x _if; conforming values; pure "
        "transforms); every transition compared with the executable model of the documentation and with model-free differentials"
    ))
    run.assumptions += [
        "with_a(MISSING) is judged differentially against with_a(); identity of the returned object is demanded for _if=False and UNCHANGED",
        "undocumented forms (value and nested keywords together, with_a() on plain scalar types, transform of a missing attribute) are not judged here",
    ]
