"""
C02 — derived copies share no mutable state with the original (do_not_copy excepted).

Same explorer as C01 (own state graph).  Judged transitions: copy-on-write helper calls and
copy.deepcopy with freshly built conforming arguments and transforms returning new objects.
Oracle 1 (structural, every judged transition): the mutable nodes reachable from both receiver and
result are a subset of (nodes reachable from this call's argument objects) U (values of
do_not_copy attributes); do_not_copy attributes not targeted by the call are carried by identity.
Oracle 2 (observational, differential): every in-place operation of the alphabet applied to the
result leaves the receiver observably unchanged, and vice versa (replayed on fresh objects).
"""
from __future__ import annotations

from mc import explore, grammar as G, snap
from mc import spec_ops as S
from mc.common import pmap

PROP = "C02"


def dnc_attrs(rec):
    o = rec.get("opts", {})
    d = o.get("do_not_copy")
    out = list(d) if isinstance(d, list) else []
    out += [G.attr_name(a) for a in rec["attrs"] if a.get("default") == "attr_dnc" and G.attr_name(a) not in out]
    return out


def targeted_attrs(rec, op):
    names = {}
    for a in rec["attrs"]:
        K = G.KINDS[a["kind"]]
        names[G.attr_name(a)] = G.attr_name(a)
        if "item" in K:
            names["item:" + K["item"]] = G.attr_name(a)
    if op["op"] == "deepcopy":
        return set()
    m = op.get("m", "")
    if m == "reset":
        return set(names.values())
    for pre in ("with_", "update_", "transform_", "reset_", "without_"):
        if m.startswith(pre):
            rest = m[len(pre):]
            t = names.get(rest) or names.get("item:" + rest)
            return {t} if t else set()
    return {k for k in op.get("kw", {}) if k in names}


def declared_noop(op):
    """calls the API declares to be no-ops returning the receiver: _if=False, MISSING / UNCHANGED values"""
    if op.get("kw", {}).get("_if") is False:
        return True
    vals = list(op.get("args", [])) + [v for k, v in op.get("kw", {}).items() if not k.startswith("_")]
    return bool(vals) and all(v in (["MISSING"], ["UNCHANGED"]) for v in vals)


class Oracle:
    faults = ()

    def __init__(self, task):
        self.task = task
        self.quick = task.get("tier") == "quick"
        self.o2_done = set()
        self.stats = {"oracle2_inplace_probes": 0, "oracle2_transitions": 0}

    def applies(self, rec):
        o = rec.get("opts", {})
        return not o.get("frozen") and o.get("do_not_copy") is not True

    def profile(self, rec):
        P = {"raising": False, "invalid": False, "ctor": False}
        if self.quick or len(rec["attrs"]) > 1:
            P["small"] = True
        return P

    def checked(self, op):
        return op["op"] == "deepcopy" or (op["op"] == "call" and not op.get("kw", {}).get("_inplace"))

    def pre(self, ctx):
        ctx.store["pre_done"] = True

    def post(self, ctx, out):
        if not self.checked(ctx.op) or out.raised:
            return []
        recv, res = out.receiver, out.result
        if res is recv and recv is not None and ctx.op["op"] == "call" and not declared_noop(ctx.op):
            # the "copy" is the receiver itself: every later in-place change to either is visible through the other
            return [explore.violation(PROP, ctx.sig("returned_receiver_itself"), {"outcome": out.brief()}, ctx.case())]
        if res is None or res is recv or not isinstance(res, type(recv)):
            return []
        v = []
        rec = ctx.rec
        shared = snap.shared_mutable(recv, res)
        allowed = {}
        for a in out.args:
            allowed.update(snap.reachable_mutable(a))
        dnc = dnc_attrs(rec)
        for n in dnc:
            if n in vars(recv):
                allowed.update(snap.reachable_mutable(vars(recv)[n]))
        bad = {i: o for i, o in shared.items() if i not in allowed}
        if bad:
            where = locate(recv, bad)
            v.append(explore.violation(PROP, ctx.sig("shares_mutable_state", node=sorted({type(o).__name__ for o in bad.values()})[0]),
                                       {"shared": [f"{type(o).__name__} {o!r:.60}" for o in list(bad.values())[:3]], "paths": where[:3]},
                                       ctx.case()))
        tg = targeted_attrs(rec, ctx.op)
        if ctx.op.get("shape") == "update:newvalue+kw":
            tg = set(dnc)  # the result derives from the replacement instance handed in, not from the receiver
        for n in dnc:
            if n in tg and ctx.op.get("shape") not in ("update:noargs", "transform:noargs"):
                continue  # (a call that changes nothing about the attribute it names still has to carry it by identity)
            if n in vars(recv) and (n not in vars(res) or vars(res)[n] is not vars(recv)[n]):
                v.append(explore.violation(PROP, ctx.sig("do_not_copy_attr_duplicated", attr=n),
                                           {"receiver": repr(vars(recv)[n])[:80], "result": repr(vars(res).get(n, '<absent>'))[:80]},
                                           ctx.case()))
        handed_in_own_state = any(set(snap.reachable_mutable(a)) & set(snap.reachable_mutable(recv)) for a in out.args)
        if not v and not handed_in_own_state:
            # (when the caller hands the receiver's own objects to the call, sharing them is the stated exception)
            v += self.oracle2(ctx, out)
        return v

    # ---- observational differential ----------------------------------------------------------
    def oracle2(self, ctx, out):
        key = (len(ctx.history), ctx.op.get("shape"), explore.attr_kind_of(ctx.rec, ctx.op))
        if self.quick and key in self.o2_done:
            return []
        if not self.quick and (len(ctx.history), repr(ctx.op)) in self.o2_done:
            return []
        self.o2_done.add(key)
        self.o2_done.add((len(ctx.history), repr(ctx.op)))
        self.stats["oracle2_transitions"] += 1
        rec, env = ctx.rec, ctx.env
        P = dict(self.profile(rec), inplace=(True,), scalar=True, element=True, assign=True, toplevel=False, deepcopy=False,
                 sentinels=False, iffalse=False, small=True)
        probe_world = S.build(env, ctx.history)
        S.execute(probe_world, ctx.op, adopt=True)
        mut_ops = [o for o in S.gen_ops(rec, probe_world, P) if S.is_inplace(o)]
        v = []
        dnc = set(dnc_attrs(rec))
        for m in mut_ops:
            if explore_target(rec, m) & dnc:
                continue  # in-place edits of a do_not_copy attribute are shared by design
            for side in ("result", "receiver"):
                w = S.build(env, ctx.history)
                o1 = S.execute(w, ctx.op, adopt=False)
                if o1.raised or o1.result is None:
                    break
                recv, res = o1.receiver, o1.result
                target, other = (res, recv) if side == "result" else (recv, res)
                before = snap.canon([other])
                w2 = S.World(env)
                w2.objs = [target]
                o2 = S.execute(w2, m, adopt=False)
                after = snap.canon([other])
                self.stats["oracle2_inplace_probes"] += 1
                if before != after:
                    v.append(explore.violation(PROP, ctx.sig("inplace_change_visible_through_other", mutated=side, mutator=m.get("shape")),
                                               {"mutator": m, "other_before": repr(before)[:300], "other_after": repr(after)[:300]},
                                               dict(ctx.case(), mutator=m, side=side)))
                    return v
        return v


def explore_target(rec, op):
    if op["op"] in ("set", "del"):
        return {op["attr"]}
    return targeted_attrs(rec, op)


def locate(root, bad):
    """attribute paths under which shared nodes are found (diagnostics only)"""
    paths = []
    seen = set()

    def rec(o, path, depth):
        if depth > 6 or id(o) in seen:
            return
        seen.add(id(o))
        if id(o) in bad:
            paths.append(path)
        for lab, c in snap.children(o):
            if snap.kind_of(c) != "leaf":
                rec(c, f"{path}.{lab}" if isinstance(lab, str) else f"{path}[{lab}]", depth + 1)

    rec(root, "obj", 0)
    return paths


def make_oracle(task):
    return Oracle(task)


def run_case(case):
    return explore.replay_case(case, "props.c02")


def main(run):
    from props.c01 import tasks_for

    tasks = tasks_for(run, "props.c02", PROP)
    for rec in pmap(explore.explore_class, tasks):
        run.merge(rec)
    run.add(rule=(
        "BFS over histories of each generated class (valid arguments); judged transitions = copy-on-write helper calls and "
        "copy.deepcopy; oracle 1 structural sharing on every judged transition, oracle 2 in-place differential with every in-place "
        "operation of the (small) alphabet on result and on receiver (quick: one per call shape, thorough: every distinct transition)"
    ))
    run.assumptions += [
        "argument objects are freshly built per call; transforms return new objects",
        "nested frozen instances are immutable leaves (deepcopy returns self by documented design)",
    ]
