"""
C13 — KeyedList is a list with unique keys and a coherent key index.

Engine E1: explicit-state BFS over the real `KeyedList`.  A state is the shortest operation
history reaching it (rebuilt by replay on a fresh container); the canonical form is the item
sequence (every public read is a function of it when the invariant holds, and the invariant is
checked on every transition).  Reference model `reflist`: a plain Python list + key function with
the single extra rule "duplicate key -> ValueError".  After *every* operation all public reads
of the container are compared with a linear scan of the model; an operation that raises must
leave all public reads unchanged.
"""
from __future__ import annotations

import itertools
import random

from mc.common import Counter, pmap, violation

PROP = "C13"
MISSING_KEY = "zz"


# ------------------------------------------------------------------------------------------------
# universes
# ------------------------------------------------------------------------------------------------
_SPEC = {}


def _spec_classes():
    if not _SPEC:
        from spec_classes import spec_class

        @spec_class(key="key")
        class KItem:
            key: str
            value: int = 0

        @spec_class(key="key")
        class KOther:
            key: int
            value: int = 0

        KItem(key="warm")
        KOther(key=1)
        _SPEC["KItem"] = KItem
        _SPEC["KOther"] = KOther
    return _SPEC


class KeyFault(Exception):
    pass


KEYFN = {"calls": 0, "arm": None}


def first(t):
    KEYFN["calls"] += 1
    if KEYFN["arm"] is not None and KEYFN["calls"] == KEYFN["arm"]:
        KEYFN["arm"] = None
        raise KeyFault("key function raised (injected)")
    return t[0]


class Universe:
    """k keys x p payloads; `mk(spec)` builds the item object for an item spec (k, p)."""

    def __init__(self, name, typed, k=4):
        self.name, self.typed = name, typed
        if name == "self":
            self.keys = ["a", "b", "c", "d"][:k]
            self.specs = [(x, None) for x in self.keys]
            self.keyfn = None
            self.targs = (str, str)
            self.wrong = [("wrong_item", 7)]
        elif name == "tuple":
            self.keys = ["a", "b", "c", "d"][:k]
            self.specs = [(x, p) for x in self.keys for p in (0, 1)]
            self.keyfn = first
            self.targs = (tuple, str)
            self.wrong = [("wrong_item", ["q", 0]), ("wrong_key", (5, 0))]
        elif name == "spec":
            self.keys = ["a", "b", "c", "d"][:k]
            self.specs = [(x, p) for x in self.keys for p in (0, 1)]
            self.keyfn = None
            self.targs = (_spec_classes()["KItem"], str)
            self.wrong = [("wrong_item", "q"), ("wrong_item2", ("KOther", 9))]
        elif name == "intkey":
            self.keys = [0, 1, 2, 3][:k]
            self.specs = [(x, p) for x in self.keys for p in (0, 1)]
            self.keyfn = first
            self.targs = (tuple, int)
            self.wrong = [("wrong_key", ("q", 0)), ("wrong_item", [9, 0])]
        elif name == "ttuple":
            # KeyedList[Tuple[str, int], str]: whether an item conforms depends on its CONTENTS (same classes throughout)
            from typing import Tuple

            self.keys = ["a", "b", "c", "d"][:k]
            self.specs = [(x, p) for x in self.keys for p in (0, 1)]
            self.keyfn = first
            self.targs = (Tuple[str, int], str)
            self.wrong = [("wrong_item", ("q", "x")), ("wrong_item_existing_key", ("a", "x"))]
        elif name == "eqrepr":
            # 1, True and 1.0 are equal Python objects with three different keys under key=repr
            self.keys = ["1", "True", "1.0"]
            self.specs = [(x, None) for x in self.keys]
            self.keyfn = repr
            self.targs = (object, str)
            self.wrong = []
        else:
            raise ValueError(name)
        self.int_keys = name == "intkey"
        self.missing_key = 9 if self.int_keys else MISSING_KEY

    def fresh_pool(self):
        pool = {}
        for s in self.specs:
            s = tuple(s)
            if self.name == "self":
                pool[s] = s[0]
            elif self.name == "spec":
                pool[s] = _spec_classes()["KItem"](key=s[0], value=s[1])
            elif self.name == "eqrepr":
                pool[s] = {"1": 1, "True": True, "1.0": 1.0}[s[0]]
            else:
                pool[s] = (s[0], s[1])
        return pool

    def wrong_obj(self, w):
        if isinstance(w, tuple) and len(w) == 2 and w[0] == "KOther":
            return _spec_classes()["KOther"](key=w[1])
        return w

    def key_of(self, obj):
        if self.name == "self":
            return obj
        if self.name == "spec":
            return obj.key
        if self.name == "eqrepr":
            return repr(obj)
        return obj[0]

    def new_container(self, items=()):
        from spec_classes.types import KeyedList

        if self.typed:
            return KeyedList[self.targs[0], self.targs[1]](list(items), key=self.keyfn)
        return KeyedList(list(items), key=self.keyfn)


# ------------------------------------------------------------------------------------------------
# canonical forms
# ------------------------------------------------------------------------------------------------
class Canon:
    def __init__(self, pool):
        self.ids = {id(o): s for s, o in pool.items()}
        self.pool = pool

    def item(self, o):
        s = self.ids.get(id(o))
        if s is not None:
            return ["item", list(s)]
        # equal-by-value fallback (strings/tuples are interned or equal objects)
        for sp, po in self.pool.items():
            try:
                if type(po) is type(o) and po == o:
                    return ["item", list(sp)]
            except Exception:
                pass
        return ["obj", repr(o)[:80]]

    def value(self, v):
        from spec_classes.types import KeyedList

        if isinstance(v, KeyedList):
            return ["KL", [self.item(x) for x in v]]
        if isinstance(v, list):
            return ["list", [self.item(x) for x in v]]
        if isinstance(v, (bool, int, str)) or v is None:
            return v
        return self.item(v)


def observe_impl(l, u, canon):
    """every public read of the container"""
    out = {}
    out["len"] = len(l)
    out["list"] = [canon.item(x) for x in l]
    out["by_index"] = [canon.item(l[i]) for i in range(len(l))]
    out["keys"] = sorted(repr(k) for k in l.keys())
    out["items"] = sorted([repr(k), canon.item(v)] for k, v in l.items())
    per = {}
    for k in list(u.keys) + [u.missing_key]:
        d = {}
        got = l.get(k)
        d["get"] = None if got is None else canon.item(got)
        d["in"] = k in l
        try:
            d["ifk"] = l.index_for_key(k)
        except KeyError:
            d["ifk"] = "KeyError"
        if not u.int_keys:
            try:
                d["getitem"] = canon.item(l[k])
            except KeyError:
                d["getitem"] = "KeyError"
        per[repr(k)] = d
    out["per_key"] = per
    return out


def observe_model(m, u, canon):
    out = {}
    out["len"] = len(m)
    out["list"] = [canon.item(x) for x in m]
    out["by_index"] = [canon.item(x) for x in m]
    out["keys"] = sorted(repr(u.key_of(x)) for x in m)
    out["items"] = sorted([repr(u.key_of(x)), canon.item(x)] for x in m)
    per = {}
    for k in list(u.keys) + [u.missing_key]:
        d = {}
        found = [(i, x) for i, x in enumerate(m) if u.key_of(x) == k]
        d["get"] = canon.item(found[0][1]) if found else None
        d["in"] = bool(found)
        d["ifk"] = found[0][0] if found else "KeyError"
        if not u.int_keys:
            d["getitem"] = canon.item(found[0][1]) if found else "KeyError"
        per[repr(k)] = d
    out["per_key"] = per
    return out


# ------------------------------------------------------------------------------------------------
# operations: (name, *args) JSON-able.  item arguments are ["i", k, p] (pool item) or
# ["w", label, raw] (wrong-typed object); keys are raw.
# ------------------------------------------------------------------------------------------------
SLICES = [(None, None, None), (1, None, None), (None, -1, None), (None, None, 2), (None, None, -1), (1, 3, None)]


def arg_obj(a, u, pool):
    if a[0] == "i":
        return pool[(a[1], a[2])]
    return u.wrong_obj(tuple(a[2]) if isinstance(a[2], list) and a[1] == "wrong_item2" else _unjson_wrong(u, a))


def _unjson_wrong(u, a):
    for label, raw in u.wrong:
        if label == a[1]:
            return raw
    raise KeyError(a)


def is_wrong(a):
    return a[0] == "w"


def alphabet(u, n, max_items):
    """all operations applicable to a container of length n (simplest first)"""
    items = [["i", s[0], s[1]] for s in u.specs]
    wrong = [["w", label, raw] for label, raw in u.wrong] if u.typed else []
    idx = list(range(-n - 1, n + 2))
    keys = list(u.keys) + [u.missing_key]
    ops = []
    ops += [["len"], ["iter"], ["keys"], ["items"], ["reversed"]]
    ops += [["getitem_i", i] for i in idx]
    ops += [["getitem_slice", list(s)] for s in SLICES]
    ops += [["get", k] for k in keys]
    ops += [["index_for_key", k] for k in keys]
    ops += [["contains_key", k] for k in keys]
    ops += [["contains_item", x] for x in items]
    ops += [["index", x] for x in items]
    ops += [["count", x] for x in items]
    ops += [["eq_same_list"], ["eq_other_list"], ["eq_keyedlist"], ["ne_keyedlist"]]
    if not u.int_keys:
        ops += [["getitem_k", k] for k in keys]
    ops += [["append", x] for x in items + wrong]
    ops += [["insert", i, x] for i in idx for x in items] + [["insert", 0, x] for x in wrong]
    ops += [["setitem_i", i, x] for i in idx for x in items] + [["setitem_i", i, x] for i in (0, -1) for x in wrong]
    ops += [["delitem_i", i] for i in idx]
    if not u.int_keys:
        ops += [["setitem_k", k, x] for k in keys for x in items] + [["setitem_k", u.keys[0], x] for x in wrong]
        ops += [["delitem_k", k] for k in keys]
    ops += [["setitem_slice"], ["delitem_slice"]]
    ops += [["pop"]] + [["pop_i", i] for i in idx]
    ops += [["remove", x] for x in items]
    ops += [["reverse"], ["clear"]]
    # sequences of <= 2 items for extend / += / + / radd (incl. duplicate inside, wrong in the middle)
    seqs = [[]] + [[x] for x in items]
    pair_items = items[: min(len(items), 4)]
    seqs += [[x, y] for x in pair_items for y in pair_items]
    if wrong:
        seqs += [[items[-1], wrong[0]], [wrong[0], items[-1]]]
    for kind in ("extend", "iadd"):
        ops += [[kind, s] for s in seqs]
        # the same from a ONE-SHOT iterable (a generator can be walked once only - as for a plain list.extend)
        ops += [[kind, s, "gen"] for s in seqs if s]
    ops += [["add", s, "list"] for s in seqs] + [["add", s, "keyedlist"] for s in seqs[: 1 + len(items)]]
    ops += [["radd", s] for s in seqs]
    return ops


def grows(op, n):
    name = op[0]
    if name in ("append", "insert"):
        return 1
    if name in ("extend", "iadd"):
        return len(op[1])
    return 0


MUTATING = ("append", "insert", "setitem_i", "setitem_k", "delitem_i", "delitem_k", "pop", "pop_i", "remove", "reverse", "clear", "extend", "iadd")


class Raised:
    def __init__(self, exc):
        self.exc = exc
        self.kind = type(exc).__name__

    def family(self):
        for base in (IndexError, KeyError, ValueError, TypeError, RuntimeError):
            if isinstance(self.exc, base):
                return base.__name__
        if type(self.exc).__name__ == "BaseTypeError":
            return "TypeError"
        return type(self.exc).__name__


def apply_impl(l, op, u, pool):
    """execute on the real container; returns (value | Raised, possibly-new-container)"""
    from spec_classes.types import KeyedList

    name = op[0]
    A = lambda a: arg_obj(a, u, pool)  # noqa
    try:
        if name == "len":
            return len(l), l
        if name == "iter":
            return list(iter(l)), l
        if name == "reversed":
            return list(reversed(l)), l
        if name == "keys":
            return sorted(repr(k) for k in l.keys()), l
        if name == "items":
            return sorted(repr(k) for k, _ in l.items()), l
        if name == "getitem_i":
            return l[op[1]], l
        if name == "getitem_slice":
            r = l[slice(*op[1])]
            return r, l
        if name == "getitem_k":
            return l[op[1]], l
        if name == "get":
            return l.get(op[1]), l
        if name == "index_for_key":
            return l.index_for_key(op[1]), l
        if name == "contains_key":
            return op[1] in l, l
        if name == "contains_item":
            return A(op[1]) in l, l
        if name == "index":
            return l.index(A(op[1])), l
        if name == "count":
            return l.count(A(op[1])), l
        if name == "eq_same_list":
            return (l == list(l)) and not (l != list(l)), l
        if name == "eq_other_list":
            return l == (list(l) + [pool[tuple(u.specs[0])]]), l
        if name == "eq_keyedlist":
            return l == KeyedList(list(l), key=u.keyfn), l
        if name == "ne_keyedlist":
            other = KeyedList(list(l)[1:], key=u.keyfn)
            return l == other, l
        if name == "append":
            return l.append(A(op[1])), l
        if name == "insert":
            return l.insert(op[1], A(op[2])), l
        if name == "setitem_i":
            l[op[1]] = A(op[2])
            return None, l
        if name == "setitem_k":
            l[op[1]] = A(op[2])
            return None, l
        if name == "setitem_slice":
            l[0:1] = [pool[tuple(u.specs[0])]]
            return None, l
        if name == "delitem_i":
            del l[op[1]]
            return None, l
        if name == "delitem_k":
            del l[op[1]]
            return None, l
        if name == "delitem_slice":
            del l[0:1]
            return None, l
        if name == "pop":
            return l.pop(), l
        if name == "pop_i":
            return l.pop(op[1]), l
        if name == "remove":
            return l.remove(A(op[1])), l
        if name == "reverse":
            return l.reverse(), l
        if name == "clear":
            return l.clear(), l
        if name == "extend":
            src = [A(x) for x in op[1]]
            return l.extend(iter(src) if op[2:] == ["gen"] else src), l
        if name == "iadd":
            l2 = l
            src = [A(x) for x in op[1]]
            l2 += (x for x in src) if op[2:] == ["gen"] else src
            return None, l2
        if name == "add":
            operand = [A(x) for x in op[1]]
            if op[2] == "keyedlist":
                operand = KeyedList(operand, key=u.keyfn)
            return l + operand, l
        if name == "radd":
            return [A(x) for x in op[1]] + l, l
    except (Exception,) as e:
        return Raised(e), l
    except BaseException as e:  # BaseTypeError derives from BaseException
        if type(e).__name__ == "BaseTypeError":
            return Raised(e), l
        raise
    raise ValueError(f"unknown op {op}")


def _dup(m, u):
    ks = [u.key_of(x) for x in m]
    return len(set(ks)) != len(ks)


def _check_types(u, objs_with_flags):
    for o, wrong in objs_with_flags:
        if wrong:
            raise TypeError("wrong type")


def apply_model(m, op, u, pool):
    """reference semantics on a plain list; returns (value | ('raise', {families}), new_list).
    Pure: never mutates `m`."""
    name = op[0]
    m = list(m)
    A = lambda a: arg_obj(a, u, pool)  # noqa

    def raises(*fam):
        return ("raise", set(fam)), None

    def conflict_kinds(new_items_ops, base):
        """type errors first (TypeError), then duplicate (ValueError); both possible -> either"""
        fam = set()
        objs = []
        for a in new_items_ops:
            if is_wrong(a):
                fam.add("TypeError")
            objs.append(A(a))
        return fam, objs

    if name == "len":
        return len(m), m
    if name == "iter":
        return list(m), m
    if name == "reversed":
        return list(reversed(m)), m
    if name == "keys":
        return sorted(repr(u.key_of(x)) for x in m), m
    if name == "items":
        return sorted(repr(u.key_of(x)) for x in m), m
    if name == "getitem_i":
        try:
            return m[op[1]], m
        except IndexError:
            return raises("IndexError")
    if name == "getitem_slice":
        return ("slice", m[slice(*op[1])]), m
    if name in ("getitem_k",):
        for x in m:
            if u.key_of(x) == op[1]:
                return x, m
        return raises("KeyError")
    if name == "get":
        for x in m:
            if u.key_of(x) == op[1]:
                return x, m
        return None, m
    if name == "index_for_key":
        for i, x in enumerate(m):
            if u.key_of(x) == op[1]:
                return i, m
        return raises("KeyError")
    if name == "contains_key":
        return any(u.key_of(x) == op[1] for x in m), m
    if name == "contains_item":
        o = A(op[1])
        return any(x is o or x == o for x in m) or any(u.key_of(x) == o for x in m if _hashable(o)), m
    if name == "index":
        try:
            return m.index(A(op[1])), m
        except ValueError:
            return raises("ValueError")
    if name == "count":
        return m.count(A(op[1])), m
    if name == "eq_same_list":
        return True, m
    if name == "eq_other_list":
        return False, m
    if name == "eq_keyedlist":
        return True, m
    if name == "ne_keyedlist":
        return len(m) == 0, m
    if name == "append":
        fam, objs = conflict_kinds([op[1]], m)
        new = m + objs
        if not fam and _dup(new, u):
            fam.add("ValueError")
        if fam:
            return raises(*fam)
        return None, new
    if name == "insert":
        fam, objs = conflict_kinds([op[2]], m)
        new = list(m)
        new.insert(op[1], objs[0])
        if not fam and _dup(new, u):
            fam.add("ValueError")
        if fam:
            return raises(*fam)
        return None, new
    if name == "setitem_i":
        fam, objs = conflict_kinds([op[2]], m)
        new = list(m)
        try:
            new[op[1]] = objs[0]
        except IndexError:
            # list semantics: IndexError; a wrong-typed item may be rejected first
            return raises("IndexError", *fam)
        if not fam and _dup(new, u):
            fam.add("ValueError")
        if fam:
            return raises(*fam)
        return None, new
    if name == "setitem_k":
        pos = [i for i, x in enumerate(m) if u.key_of(x) == op[1]]
        fam, objs = conflict_kinds([op[2]], m)
        if not pos:
            return raises("KeyError", *fam)
        new = list(m)
        new[pos[0]] = objs[0]
        if not fam and _dup(new, u):
            fam.add("ValueError")
        if fam:
            return raises(*fam)
        return None, new
    if name in ("setitem_slice", "delitem_slice"):
        return raises("RuntimeError")  # documented: one value at a time
    if name == "delitem_i":
        new = list(m)
        try:
            del new[op[1]]
        except IndexError:
            return raises("IndexError")
        return None, new
    if name == "delitem_k":
        pos = [i for i, x in enumerate(m) if u.key_of(x) == op[1]]
        if not pos:
            return raises("KeyError")
        new = list(m)
        del new[pos[0]]
        return None, new
    if name == "pop":
        new = list(m)
        try:
            v = new.pop()
        except IndexError:
            return raises("IndexError")
        return v, new
    if name == "pop_i":
        new = list(m)
        try:
            v = new.pop(op[1])
        except IndexError:
            return raises("IndexError")
        return v, new
    if name == "remove":
        new = list(m)
        try:
            new.remove(A(op[1]))
        except ValueError:
            return raises("ValueError")
        return None, new
    if name == "reverse":
        return None, list(reversed(m))
    if name == "clear":
        return None, []
    if name in ("extend", "iadd"):
        fam, objs = conflict_kinds(op[1], m)
        new = m + objs
        if _dup([x for x, a in zip(new, [None] * len(m) + list(op[1])) if a is None or not is_wrong(a)], u):
            fam.add("ValueError")
        if fam:
            return raises(*fam)
        return None, new
    if name in ("add", "radd"):
        fam, objs = conflict_kinds(op[1], m)
        new = (m + objs) if name == "add" else (objs + m)
        if name == "add" and op[2] == "keyedlist" and (fam or _dup(objs, u)):
            return ("skip", None), m  # operand itself cannot be built
        if fam:
            # the result of + is a fresh container; whether it keeps the type parameters of the
            # receiver is not stated by the property -> wrong-typed operand items are a don't-care
            return ("skip", None), m
        if _dup([x for x in new if not any(x is A(a) for a in op[1] if is_wrong(a))], u):
            fam.add("ValueError")
        if fam and not u.typed:
            fam.discard("TypeError")
        if fam:
            # the result is a fresh container: a wrong-typed operand item on an untyped result is
            # not demanded to fail; otherwise TypeError/ValueError
            return raises(*fam)
        return ("newlist", new), m
    raise ValueError(f"unknown op {op}")


def _hashable(o):
    try:
        hash(o)
        return True
    except TypeError:
        return False


# ------------------------------------------------------------------------------------------------
# one transition: compare
# ------------------------------------------------------------------------------------------------
def sig_for(u, op, kind, **kw):
    d = {"universe": u.name, "typed": u.typed, "op": op[0], "kind": kind}
    d.update(kw)
    return d


def step(u, pool, canon, l, m, op, case, out):
    """apply op to impl and model, compare; returns (ok, l2, m2).  Appends violations to out."""
    pre_obs = observe_impl(l, u, canon)
    exp, m2 = apply_model(m, op, u, pool)
    got, l2 = apply_impl(l, op, u, pool)
    if isinstance(exp, tuple) and exp and exp[0] == "skip":
        return True, l, m, "skip"
    ok = True
    idx_class = None
    if op[0] in ("setitem_i", "insert", "delitem_i", "pop_i", "getitem_i") and isinstance(op[1], int):
        n = len(m)
        idx_class = "neg" if op[1] < 0 and -op[1] <= n else ("nonneg" if 0 <= op[1] < n else "out_of_range")
    extra = {"index": idx_class} if idx_class else {}

    if isinstance(exp, tuple) and exp and exp[0] == "raise":
        fams = exp[1]
        if not isinstance(got, Raised):
            out.append(
                violation(PROP, sig_for(u, op, "should_raise", expected=sorted(fams), **extra),
                          {"expected": sorted(fams), "got": canon.value(got) if not isinstance(got, list) else canon.value(got), "before": pre_obs["list"]}, case)
            )
            return False, l2, m, "viol"
        if got.family() not in fams:
            out.append(
                violation(PROP, sig_for(u, op, "wrong_exception", expected=sorted(fams), got=got.family(), **extra),
                          {"expected": sorted(fams), "got": repr(got.exc)[:200], "before": pre_obs["list"]}, case)
            )
            ok = False
        post_obs = observe_impl(l2, u, canon)
        if post_obs != pre_obs:
            out.append(
                violation(PROP, sig_for(u, op, "changed_on_raise", raised=got.family(), **extra),
                          {"before": pre_obs["list"], "after": post_obs["list"], "raised": repr(got.exc)[:200],
                           "after_keys": post_obs["keys"]}, case)
            )
            ok = False
        return ok, l2, m, "raise:" + got.family()

    # model returns normally
    if isinstance(got, Raised):
        out.append(
            violation(PROP, sig_for(u, op, "unexpected_raise", got=got.family(), **extra),
                      {"raised": repr(got.exc)[:200], "before": pre_obs["list"],
                       "after": observe_impl(l2, u, canon)["list"]}, case)
        )
        return False, l2, m, "viol"
    # compare result
    if isinstance(exp, tuple) and exp and exp[0] == "slice":
        same = canon.value(list(got)) == canon.value(list(exp[1]))
    elif isinstance(exp, tuple) and exp and exp[0] == "newlist":
        same = canon.value(list(got)) == canon.value(list(exp[1]))
        if same and hasattr(got, "index_for_key"):
            # the result must itself be a coherent keyed list under the receiver's key function
            ro = observe_impl(got, u, canon)
            rm = observe_model(exp[1], u, canon)
            if ro != rm:
                out.append(
                    violation(PROP, sig_for(u, op, "result_incoherent"),
                              {"result_list": ro["list"], "result_keys": ro["keys"], "expected_keys": rm["keys"]}, case)
                )
                ok = False
    elif isinstance(exp, list):
        same = canon.value(got) == canon.value(exp) if isinstance(got, list) else False
        if exp and isinstance(exp[0], str) and isinstance(got, list):
            same = got == exp
    else:
        same = canon.value(got) == canon.value(exp)
    if not same:
        out.append(
            violation(PROP, sig_for(u, op, "wrong_result", **extra),
                      {"expected": _cv(canon, exp), "got": _cv(canon, got), "before": pre_obs["list"]}, case)
        )
        ok = False
    post_obs = observe_impl(l2, u, canon)
    mod_obs = observe_model(m2, u, canon)
    if post_obs != mod_obs:
        diff = [k for k in post_obs if post_obs[k] != mod_obs[k]]
        out.append(
            violation(PROP, sig_for(u, op, "state_mismatch", fields=diff[:3], **extra),
                      {"before": pre_obs["list"], "after": post_obs["list"], "expected": mod_obs["list"],
                       "after_keys": post_obs["keys"], "expected_keys": mod_obs["keys"]}, case)
        )
        ok = False
    return ok, l2, m2, "ok"


def _cv(canon, v):
    if isinstance(v, tuple) and v and v[0] in ("slice", "newlist"):
        return canon.value(list(v[1]))
    try:
        return canon.value(v)
    except Exception:
        return repr(v)[:100]


# ------------------------------------------------------------------------------------------------
# replay / explorer
# ------------------------------------------------------------------------------------------------
def build(u, history):
    """fresh pool + container + model with `history` replayed (history ops are known good)"""
    pool = u.fresh_pool()
    canon = Canon(pool)
    l = u.new_container()
    m = []
    for op in history:
        _, m = apply_model(m, op, u, pool)
        _, l = apply_impl(l, op, u, pool)
    return pool, canon, l, m


def run_case(case):
    u = Universe(case["universe"], case["typed"], case.get("k", 4))
    pool, canon, l, m = build(u, case["history"])
    out = []
    if case.get("keyfn_fault"):
        pre = observe_impl(l, u, canon)
        KEYFN["calls"], KEYFN["arm"] = 0, case["keyfn_fault"]
        got, l2 = apply_impl(l, case["op"], u, pool)
        KEYFN["arm"] = None
        if isinstance(got, Raised):
            post = observe_impl(l2, u, canon)
            if post != pre:
                out.append(violation(PROP, sig_for(u, case["op"], "changed_on_keyfn_fault", kth=min(case["keyfn_fault"], 3)),
                                     {"before": pre["list"], "after": post["list"]}, case))
        return out
    step(u, pool, canon, l, m, case["op"], case, out)
    return out


def explore(shard):
    uname, typed, max_items, k = shard["universe"], shard["typed"], shard["max_items"], shard.get("k", 4)
    u = Universe(uname, typed, k)
    C = Counter()
    seen = {(): ()}  # canonical content -> history
    frontier = [((), ())]
    depth_max = 0
    hit_cap = False
    while frontier:
        nxt = []
        for content, hist in frontier:
            n = len(content)
            ops = alphabet(u, n, max_items)
            for op in ops:
                if n + grows(op, n) > max_items:
                    continue  # bound on container size (the stated exploration bound)
                pool, canon, l, m = build(u, hist)
                case = {"universe": uname, "typed": typed, "k": k, "history": list(hist), "op": op}
                out = []
                ok, l2, m2, outcome = step(u, pool, canon, l, m, op, case, out)
                C.inc("transitions")
                C.inc("evaluations")
                C.outcome(outcome.split(":")[0] if not outcome.startswith("raise") else outcome)
                for v in out:
                    C.viol(v)
                if outcome == "skip":
                    continue
                if ok and u.keyfn is first and shard.get("keyfn_faults", True) and op[0] in MUTATING:
                    # E2: the user key function raising at its k-th invocation during this operation
                    pool0, canon0, l0, m0 = build(u, hist)
                    KEYFN["calls"] = 0
                    apply_impl(l0, op, u, pool0)
                    ncalls = KEYFN["calls"]
                    for kth in range(1, ncalls + 1):
                        pool1, canon1, l1, m1 = build(u, hist)
                        pre1 = observe_impl(l1, u, canon1)
                        KEYFN["calls"], KEYFN["arm"] = 0, kth
                        got1, l1b = apply_impl(l1, op, u, pool1)
                        KEYFN["arm"] = None
                        C.inc("evaluations")
                        C.inc("keyfn_fault_runs")
                        if isinstance(got1, Raised):
                            post1 = observe_impl(l1b, u, canon1)
                            if post1 != pre1:
                                C.viol(violation(PROP, sig_for(u, op, "changed_on_keyfn_fault", kth=min(kth, 3)),
                                                 {"before": pre1["list"], "after": post1["list"], "after_keys": post1["keys"], "raised": repr(got1.exc)[:80]},
                                                 dict(case, keyfn_fault=kth)))
                                break
                if ok:
                    C.inc("traces_validated_against_impl")
                if outcome != "ok" or [canon.item(x) for x in m2] != [canon.item(x) for x in m]:
                    C.nontrivial((content, repr(op)))
                if not ok or outcome != "ok":
                    continue
                key = tuple(tuple(canon.item(x)[1]) for x in m2)
                if key not in seen:
                    seen[key] = hist + (op,)
                    nxt.append((key, hist + (op,)))
                    depth_max = max(depth_max, len(hist) + 1)
                    if len(seen) % 97 == 1:
                        C.sample({"universe": uname, "typed": typed, "history": list(hist + (op,))})
        frontier = nxt
    C.rec["states"] = len(seen)
    C.rec["extra"]["max_depth"] = depth_max
    C.rec["extra"]["shards"] = [f"{uname}/{'typed' if typed else 'untyped'}: states={len(seen)} depth={depth_max}"]
    C.sample({"universe": uname, "typed": typed, "history": list(seen[max(seen, key=len)])})
    return C.rec


def random_walk(shard):
    """random extension beyond the exhaustive bound (reported separately; same oracle)."""
    u = Universe(shard["universe"], shard["typed"], 4)
    rnd = random.Random(shard["seed"])
    C = Counter()
    steps = 0
    for w in range(shard["walks"]):
        hist = []
        pool, canon, l, m = build(u, [])
        for _ in range(shard["length"]):
            ops = alphabet(u, len(m), 99)
            op = rnd.choice(ops)
            case = {"universe": u.name, "typed": u.typed, "k": 4, "history": list(hist), "op": op}
            out = []
            ok, l, m2, outcome = step(u, pool, canon, l, m, op, case, out)
            steps += 1
            for v in out:
                C.viol(v)
            if not ok:
                break
            if outcome == "ok":
                m = m2
                hist.append(op)
    rec = C.rec
    return {"violations": rec["violations"], "errors": [], "extra": {"random_extension_steps": steps}}


UNIVERSES = ["self", "tuple", "spec", "intkey", "ttuple", "eqrepr"]
ONLY_TYPED = {"ttuple": (True,), "eqrepr": (False,)}


def main(run):
    quick = run.tier == "quick"
    max_items = 3 if quick else 4
    shards = [
        {"universe": un, "typed": t, "max_items": max_items, "k": 4}
        for un in UNIVERSES
        for t in ONLY_TYPED.get(un, (False, True))
    ]
    for rec in pmap(explore, shards):
        run.merge(rec)
    walks = [
        {"universe": un, "typed": t, "seed": run.seed * 1000 + i, "walks": 20 if quick else 200, "length": 12}
        for i, (un, t) in enumerate((un, t) for un in UNIVERSES for t in ONLY_TYPED.get(un, (False, True)))
    ]
    for rec in pmap(random_walk, walks):
        run.merge(rec)
    run.add(
        rule=(
            "BFS over operation histories of the real KeyedList from the empty container; state = item "
            "sequence (canonical), bound = container size <= %d over 4 keys x 2 payloads; every operation of "
            "the alphabet with every index in [-len-1,len+1], every item/key of the universe, sequences of <= 2 "
            "items; a transition is non-trivial when it changes the content or raises" % max_items
        ),
        bound_max_items=max_items,
    )
    run.assumptions += [
        "items are immutable during a run; one object per (key,payload) so equality and identity coincide",
        "l[int] / del l[int] / l[int]=x are index operations also for int-keyed items (list semantics first)",
        "random extension beyond the size bound is reported separately (random_extension_steps) and is not the verdict",
    ]
