"""
C20 — copying leaves process-global state untouched and is safe across threads.

(a) Sequential E1: every sequence (<= depth) of library operations that copy, from two initial
    dispatch tables (no ModuleType entry / a user-installed ModuleType reducer); after every
    operation (quiescent point) `copyreg.dispatch_table` must equal the initial snapshot by
    identity of entries.
(b) Abort points (E2): every user callback that runs while a copy is in flight, at every
    invocation, and every executed library line outside the protection primitive's own methods
    and its `with` statement, as an injected exception; the table must be restored afterwards
    and a subsequent clean copy must still leave it restored.
(c) Threads (E3): 2 and 3 threads each deep-copying a module-bearing value (flat and nested);
    scheduling points = every executed line of utils/mutation.py (+ bytecode granularity inside
    the primitive's methods in the thorough tier); all schedules with <= 2 preemptions; fresh
    primitive state per execution.  Every thread's copy must succeed and carry the module by
    identity, and the table must equal the initial snapshot at the end of every schedule.
"""
from __future__ import annotations

import copy
import copyreg
import itertools
import linecache
import random
import sys
import types

from mc import grammar as G
from mc import sched
from mc.common import Counter, pmap, violation
from mc.explore import LineFaulter, lib_dir

PROP = "C20"
_ENV = {}


def user_reducer(m):
    return "user-reduced-module"


class _FalsyReducer:
    """a perfectly good reducer that happens to be falsy (an empty container-like callable): 'is an entry registered?' is a
    question about PRESENCE, not about truthiness"""

    def __bool__(self):
        return False

    def __call__(self, m):
        return "user-reduced-module"


falsy_reducer = _FalsyReducer()


def env():
    if not _ENV:
        from typing import Any, Dict, List

        from spec_classes import Attr, spec_class

        ns = {"Any": Any, "List": List, "Dict": Dict, "spec_class": spec_class, "Attr": Attr, "CB": G.CB}
        src = '''
@spec_class
class M:
    n: Any = None
    xs: List[int] = [1]
    d: Dict[str, Any] = Attr(default_factory=lambda: (CB.hit("factory"), {"k": [1]})[1])
    def __post_copy__(self):
        CB.hit("post_copy")
    def _prepare_xs(self, v):
        CB.hit("prepare_xs")
        return v

class Boom:
    def __deepcopy__(self, memo):
        raise RuntimeError("this value cannot be copied")

class Tolerant:
    """a user container that tries to copy its payload and falls back to sharing it"""
    def __init__(self, payload):
        self.payload = payload
    def __deepcopy__(self, memo):
        try:
            return Tolerant(copy.deepcopy(self.payload, memo))
        except RuntimeError:
            return Tolerant(self.payload)

class UserCopy:
    def __init__(self, payload):
        self.payload = payload
    def __deepcopy__(self, memo):
        CB.hit("user_deepcopy")
        return UserCopy(copy.deepcopy(self.payload, memo))
'''
        ns["copy"] = copy
        exec(compile(src, "<c20-classes>", "exec", dont_inherit=True), ns)
        ns["M"]()
        _ENV.update(ns)
    return _ENV


# ------------------------------------------------------------------------------------------------
# protection-primitive state ownership
# ------------------------------------------------------------------------------------------------
def mutation_module():
    return sys.modules["spec_classes.utils.mutation"]


def reset_protection(initial, coop=False):
    """fresh primitive state + initial table.  With coop=True the locks are cooperative."""
    import threading

    env()  # (building the harness classes uses the library: it must happen BEFORE the state is reset, not after)
    mm = mutation_module()
    mc = mm._modules_copyable
    if isinstance(mc, type) and "__instance__" in vars(mc):
        delattr(mc, "__instance__")
    lock_type = type(threading.RLock())
    factory = sched.CoopRLock if coop else threading.RLock
    mm.RLock = factory
    # whatever object of the module holds the primitive's state (the class, an eager singleton, a state holder):
    # locks are re-created, counters and flags put back to their initial values
    holders = [mm] + [v for v in vars(mm).values() if (isinstance(v, type) and v.__module__ == mm.__name__) or
                      (hasattr(v, "__dict__") and type(v).__module__ == mm.__name__ and not callable(v))]
    for h in holders:
        for k, v in list(vars(h).items()):
            if isinstance(v, (lock_type, sched.CoopRLock)):
                setattr(h, k, factory())
            elif h is not mm and k == "refcount" and isinstance(v, int):
                setattr(h, k, 0)
            elif h is not mm and k in ("patched_table", "patched") and isinstance(v, bool):
                setattr(h, k, False)
    copyreg.dispatch_table.pop(types.ModuleType, None)
    if initial == "user":
        copyreg.dispatch_table[types.ModuleType] = user_reducer


def table_state():
    e = copyreg.dispatch_table.get(types.ModuleType, None)
    if e is None:
        return "absent"
    if e is user_reducer:
        return "user"
    if e is falsy_reducer:
        return "user-falsy"
    return "library-patch"


def primitive_state():
    """(refcount, patched flag) of whatever holds the primitive's state; only used to count distinct states in the evidence"""
    mm = mutation_module()
    mc = mm._modules_copyable
    cands = []
    if isinstance(mc, type):
        cands.append(vars(mc).get("__instance__"))
        cands += [v for v in vars(mm).values() if isinstance(v, mc)]
    cands += [v for v in vars(mm).values() if hasattr(v, "refcount")]
    for inst in cands:
        if inst is not None and hasattr(inst, "refcount"):
            return (getattr(inst, "refcount", None), getattr(inst, "patched_table", None))
    return None


# ------------------------------------------------------------------------------------------------
# operations that copy
# ------------------------------------------------------------------------------------------------
OPS = ["ctor_default", "ctor_nested", "ctor_module", "with_module", "with_num_item", "deepcopy_flat", "deepcopy_nested3", "deepcopy_outer_container",
       "declare_attr_default_module",
       "deepcopy_nested_instances", "reset", "protect_direct", "user_deepcopy", "transform_nested", "caught_nested_abort",
       "user_registers", "user_unregisters", "user_registers_falsy"]
USER_OPS = {"user_registers": "user", "user_unregisters": "absent", "user_registers_falsy": "user-falsy"}  # the application (un)registers its own reducer for modules


def do_op(name, st):
    """st: dict holding the current instance"""
    e = env()
    M = e["M"]
    from spec_classes.utils.mutation import protect_via_deepcopy

    if name == "ctor_default":
        st["obj"] = M()
    elif name == "ctor_nested":
        st["obj"] = M(n=M(n=[M()]))
    elif name == "ctor_module":
        st["obj"] = M(n=[sys, {"m": sys}])
    elif name == "with_module":
        st["obj"] = st.get("obj", M()).with_n(sys)
    elif name == "with_num_item":
        st["obj"] = st.get("obj", M()).with_x(5)
    elif name == "deepcopy_flat":
        st["copy"] = copy.deepcopy(st.get("obj", M()))
    elif name == "deepcopy_nested3":
        v = {"a": [{"b": [M(n=sys)]}]}
        c = copy.deepcopy(v)
        assert c["a"][0]["b"][0].n is sys
        st["copy"] = c
    elif name == "declare_attr_default_module":
        # a class whose DECLARATION holds modules inside an Attr(default=...): decorating / bootstrapping it copies the declaration
        from typing import Any, List

        from spec_classes import Attr, spec_class

        Declared = spec_class(type("Declared", (), {"__annotations__": {"mods": List[Any]}, "mods": Attr(default=[sys, {"m": sys}])}))
        d = Declared()
        assert d.mods[0] is sys and d.mods[1]["m"] is sys
        st["obj2"] = d
    elif name == "deepcopy_outer_container":
        # the USER's own copy.deepcopy of a container that holds an instance whose attribute holds modules inside containers:
        # the instance's __deepcopy__ is entered with a memo that already has entries
        v = [{"k": M(n=[sys, {"m": sys}])}, M(n={"m": [sys]})]
        c = copy.deepcopy(v)
        assert c[0]["k"].n[0] is sys and c[0]["k"].n[1]["m"] is sys and c[1].n["m"][0] is sys
        st["copy"] = c
    elif name == "deepcopy_nested_instances":
        v = M(n=M(n=M(n=sys)))
        c = copy.deepcopy(v)
        assert c.n.n.n is sys
    elif name == "reset":
        st["obj"] = st.get("obj", M(n=M())).reset()
    elif name == "protect_direct":
        c = protect_via_deepcopy([sys, [sys]])
        assert c[0] is sys and c[1][0] is sys
    elif name == "user_deepcopy":
        c = copy.deepcopy(M(n=e["UserCopy"]([M(n=sys)])))
        assert c.n.payload[0].n is sys
    elif name == "transform_nested":
        st["obj"] = M(n=M()).transform_n(lambda v: [sys, v])
    elif name == "user_registers":
        copyreg.dispatch_table[types.ModuleType] = user_reducer
    elif name == "user_unregisters":
        copyreg.dispatch_table.pop(types.ModuleType, None)
    elif name == "user_registers_falsy":
        copyreg.dispatch_table[types.ModuleType] = falsy_reducer
    elif name == "caught_nested_abort":
        # an inner protected copy is aborted by an exception that user code CATCHES while the outer protected copy goes on:
        # the module met later in the outer copy must still be copyable, and the table restored at the end
        inner, v = M(), M()
        vars(inner)["n"] = e["Boom"]()  # (placed directly: the constructor itself would already try to copy it)
        vars(v)["n"] = [e["Tolerant"](inner), sys, {"m": sys}]
        c = copy.deepcopy(v)
        assert c.n[1] is sys and c.n[2]["m"] is sys and c.n[0].payload is v.n[0].payload
    else:
        raise ValueError(name)


def run_sequence(initial, seq, fault=None):
    """-> list of (op index, table state, expected) mismatches + outcome info"""
    reset_protection(initial)
    G.CB.reset()
    st = {}
    want = "absent" if initial == "none" else "user"
    bad = []
    for i, name in enumerate(seq):
        tracer = None
        raised = None
        if fault and fault["at"] == i:
            if fault["type"] == "callback":
                G.CB.arm = (fault["name"], fault["k"])
            else:
                tracer = LineFaulter(fault.get("i"), exclude=line_excluded)
        try:
            if tracer:
                sys.settrace(tracer)
            try:
                do_op(name, st)
            finally:
                if tracer:
                    sys.settrace(None)
        except G.InjectedFault as ex:
            raised = ex
        except G.InjectedCallbackError as ex:
            raised = ex
        except Exception as ex:
            raised = ex
        G.CB.arm = None
        if name in USER_OPS:
            want = USER_OPS[name]  # what the application itself did to the table is the new baseline
        got = table_state()
        if got != want:
            bad.append({"after_op": i, "op": name, "table": got, "expected": want, "raised": repr(raised)[:120] if raised else None,
                        "primitive": repr(primitive_state())})
            break
        if want == "user-falsy" and isinstance(raised, TypeError) and "module" in str(raised):
            # `copy` itself ignores a falsy entry (it tests truthiness), `pickle` honours it: whether modules can be copied in
            # that configuration is the application's doing - only the TABLE is judged (it must keep the application's entry)
            raised = None
        if raised is not None and not isinstance(raised, (G.InjectedFault, G.InjectedCallbackError)) and not (fault and fault["at"] == i):
            # (an injected fault may resurface as another exception type when it crosses a C extension frame)
            bad.append({"after_op": i, "op": name, "unexpected_exception": repr(raised)[:200]})
            break
        if tracer is not None:
            st["lines"] = tracer.n
            st["where"] = tracer.where
    st["callback_counts"] = dict(G.CB.counts)
    return bad, st


_SRC_CACHE = {}


def line_excluded(frame):
    """lines of the protection primitive's own methods and of its `with` statement"""
    code = frame.f_code
    if not code.co_filename.endswith("utils/mutation.py"):
        return False
    q = getattr(code, "co_qualname", code.co_name)
    if q.startswith("_modules_copyable"):
        return True
    key = (code.co_filename, frame.f_lineno)
    if key not in _SRC_CACHE:
        _SRC_CACHE[key] = linecache.getline(code.co_filename, frame.f_lineno)
    return "_modules_copyable" in _SRC_CACHE[key]


# ------------------------------------------------------------------------------------------------
# (a) sequential
# ------------------------------------------------------------------------------------------------
def seq_worker(task):
    C = Counter()
    initial, first, depth = task["initial"], task["first"], task["depth"]
    states = set()
    for d in range(0, depth):
        for rest in itertools.product(OPS, repeat=d):
            seq = [first] + list(rest)
            bad, st = run_sequence(initial, seq)
            C.inc("transitions", len(seq))
            C.inc("evaluations")
            states.add((table_state(), primitive_state()))
            if bad:
                b = bad[0]
                C.viol(violation(PROP, {"part": "sequential", "initial": initial, "op": b.get("op"), "kind": "table_not_restored" if "table" in b else "exception",
                                        "nested": b.get("op") in ("ctor_nested", "deepcopy_nested_instances", "reset", "user_deepcopy", "transform_nested", "ctor_module", "deepcopy_nested3")},
                                 b, {"part": "sequential", "initial": initial, "seq": seq}))
            else:
                C.inc("traces_validated_against_impl")
                C.nontrivial(tuple(seq))
    C.rec["states"] = len(states)
    C.sample({"part": "sequential", "initial": initial, "sequence": [first] + [OPS[-1]] * (depth - 1)})
    return C.rec


# ------------------------------------------------------------------------------------------------
# (b) abort points
# ------------------------------------------------------------------------------------------------
def abort_worker(task):
    C = Counter()
    initial, prefix, name = task["initial"], task["prefix"], task["op"]
    seq = list(prefix) + [name, "deepcopy_nested_instances"]  # a clean copy follows every abort
    at = len(prefix)
    bad, st = run_sequence(initial, seq, fault={"type": "count", "at": at})
    L = st.get("lines", 0)
    counts = st.get("callback_counts", {})
    bad0, st0 = run_sequence(initial, seq)
    counts = st0["callback_counts"]
    faults = [{"type": "line", "at": at, "i": i} for i in range(1, L + 1)]
    # callbacks only of the op under test: recount on a run of that op alone is not needed, arm by (name, k) over the
    # whole sequence and keep those that fire during the op under test
    for cb, n in sorted(counts.items()):
        for k in range(1, n + 1):
            faults.append({"type": "callback", "at": at, "name": cb, "k": k})
    for f in faults:
        bad, st = run_sequence(initial, seq, fault=f)
        C.inc("transitions")
        C.inc("evaluations")
        if bad:
            b = bad[0]
            where = st.get("where")
            C.viol(violation(PROP, {"part": "abort", "initial": initial, "op": name, "fault": f["type"],
                                    "kind": "table_not_restored" if "table" in b else "exception",
                                    "fault_at": f"{where[0]}:{where[2]}" if where else f.get("name")},
                             dict(b, fault=f, where=list(where) if where else None),
                             {"part": "abort", "initial": initial, "seq": seq, "fault": f}))
        else:
            C.inc("traces_validated_against_impl")
            C.nontrivial((initial, name, repr(f)))
    C.rec["states"] = 1
    C.rec["extra"]["abort_points"] = len(faults)
    C.sample({"part": "abort", "initial": initial, "op": name, "line_abort_points": L, "callback_abort_points": len(faults) - L})
    return C.rec


# ------------------------------------------------------------------------------------------------
# (c) threads
# ------------------------------------------------------------------------------------------------
def thread_value(kind):
    e = env()
    M = e["M"]
    if kind == "flat":
        return M(n=sys)
    if kind == "nested":
        return M(n=[M(n=sys), {"m": sys}])
    if kind == "list":
        return [sys, [sys]]
    raise ValueError(kind)


def body_for(kind, v):
    """instances are copied through copy.deepcopy (their __deepcopy__ is the library's); a raw list
    carrying modules is copied through the library's own entry point"""
    if kind == "list":
        return lambda: mutation_module().protect_via_deepcopy(v)
    return lambda: copy.deepcopy(v)


def check_copy(kind, c):
    if kind == "flat":
        return c.n is sys
    if kind == "nested":
        return c.n[0].n is sys and c.n[1]["m"] is sys
    return c[0] is sys and c[1][0] is sys


def classify(s, kinds, want):
    """-> (kind | None, detail, error type name)"""
    if s.deadlock:
        return "deadlock", {}, None
    if s.horizon_hit:
        return "horizon", {}, None
    for i, k in enumerate(kinds):
        if s.errors[i] is not None:
            return "thread_raised", {"thread": i, "error": repr(s.errors[i])[:200]}, type(s.errors[i]).__name__
        if not check_copy(k, s.results[i]):
            return "module_not_carried", {"thread": i}, None
    if table_state() != want:
        return "table_not_restored", {"table": table_state(), "primitive": repr(primitive_state())}, None
    return None, {}, None


def thread_violation(s, kinds, initial, sig, detail, err, opcodes=False, window=False):
    ch = s.choices()
    dev = [(i, c) for i, c in enumerate(ch) if c != 0]
    return violation(PROP, {"part": "threads", "kind": sig, "threads": len(kinds), "initial": initial, "error": err},
                     dict(detail, deviations=dev[:6], points=len(ch),
                          at=[list(s.points[i].where) if isinstance(s.points[i].where, tuple) else s.points[i].where for i, _ in dev[:4]]),
                     {"part": "threads", "kinds": kinds, "initial": initial, "choices": ch, "opcodes": opcodes, "window": bool(window)})


def thread_worker(task):
    C = Counter()
    kinds, bound, initial = task["kinds"], task["bound"], task["initial"]
    want = "absent" if initial == "none" else "user"
    outcomes = {}

    def make():
        vals = [thread_value(k) for k in kinds]
        bodies = [body_for(k, v) for k, v in zip(kinds, vals)]
        return bodies, {"vals": vals}

    def judge(s, ctx):
        C.inc("transitions", len(s.points))
        C.inc("evaluations")
        sig, detail, err = classify(s, kinds, want)
        outcomes[sig or "ok"] = outcomes.get(sig or "ok", 0) + 1
        if sig:
            C.viol(thread_violation(s, kinds, initial, sig, detail, err, task.get("opcodes", False), task.get("window", False)))
        else:
            C.inc("traces_validated_against_impl")
            C.nontrivial(tuple(c for c in s.choices()))

    opfuncs = ("__new__", "__init__", "__enter__", "__exit__", "protect_via_deepcopy") if task.get("opcodes") else ()
    stats = sched.explore(make, ["spec_classes/utils/mutation.py"], bound, judge, opcode_funcs=opfuncs,
                          setup=lambda: reset_protection(initial, coop=True), max_executions=task.get("max_executions"),
                          shard=task.get("shard"), only_quals=("_modules_copyable",) if task.get("window") else ())
    reset_protection("none")
    C.rec["states"] = stats["executions"]
    C.rec["extra"]["schedules"] = stats["executions"]
    C.rec["extra"]["max_points"] = stats["max_points"]
    C.rec["extra"]["schedules_with_lock_contention"] = stats["contended"]
    C.rec["extra"]["determinism_replays"] = stats.get("determinism_replays", 0)
    C.rec["extra"]["schedules_truly_interleaved"] = stats["interleaved"]
    C.rec["extra"]["thread_outcomes"] = outcomes
    if stats["capped"]:
        C.rec["exhaustive"] = False
        C.rec["extra"]["capped_thread_tasks"] = [repr(task)]
    C.sample({"part": "threads", "kinds": kinds, "bound": bound, "initial": initial, "schedules": stats["executions"], "points_per_schedule": stats["max_points"]})
    return C.rec


def random_thread_worker(task):
    """randomly prioritised schedules beyond the bound (reported separately; same oracle)"""
    C = Counter()
    rnd = random.Random(task["seed"])
    kinds, initial = task["kinds"], task["initial"]
    want = "absent" if initial == "none" else "user"
    n = 0
    for _ in range(task["runs"]):
        reset_protection(initial, coop=True)
        vals = [thread_value(k) for k in kinds]
        bodies = [body_for(k, v) for k, v in zip(kinds, vals)]
        prefix = [rnd.choice([0, 0, 0, 1, 2]) % len(kinds) for _ in range(400)]
        s = sched.Scheduler(bodies, ["spec_classes/utils/mutation.py"], prefix=prefix, clamp=True)
        s.run()
        n += 1
        sig, detail, err = classify(s, kinds, want)
        if sig:
            C.viol(thread_violation(s, kinds, initial, sig, detail, err))
    reset_protection("none")
    return {"violations": C.rec["violations"], "errors": [], "extra": {"random_schedules": n}}


def run_case(case):
    if case["part"] in ("sequential", "abort"):
        bad, st = run_sequence(case["initial"], case["seq"], fault=case.get("fault"))
        reset_protection("none")
        if not bad:
            return []
        b = bad[0]
        if case["part"] == "sequential":
            return [violation(PROP, {"part": "sequential", "initial": case["initial"], "op": b.get("op"),
                                     "kind": "table_not_restored" if "table" in b else "exception",
                                     "nested": b.get("op") in ("ctor_nested", "deepcopy_nested_instances", "reset", "user_deepcopy", "transform_nested", "ctor_module", "deepcopy_nested3")}, b, case)]
        f = case["fault"]
        where = st.get("where")
        name = case["seq"][f["at"]]
        return [violation(PROP, {"part": "abort", "initial": case["initial"], "op": name, "fault": f["type"],
                                 "kind": "table_not_restored" if "table" in b else "exception",
                                 "fault_at": f"{where[0]}:{where[2]}" if where else f.get("name")}, b, case)]
    # threads: replay the recorded schedule exactly
    kinds, initial = case["kinds"], case["initial"]
    want = "absent" if initial == "none" else "user"
    reset_protection(initial, coop=True)
    vals = [thread_value(k) for k in kinds]
    bodies = [body_for(k, v) for k, v in zip(kinds, vals)]
    opfuncs = ("__new__", "__init__", "__enter__", "__exit__", "protect_via_deepcopy") if case.get("opcodes") else ()
    s = sched.Scheduler(bodies, ["spec_classes/utils/mutation.py"], prefix=case["choices"], opcode_funcs=opfuncs,
                        only_quals=("_modules_copyable",) if case.get("window") else ())
    s.run()
    if s.divergence:
        raise sched.ReplayDivergence(s.divergence)
    sig, detail, err = classify(s, kinds, want)
    reset_protection("none")
    return [thread_violation(s, kinds, initial, sig, detail, err, case.get("opcodes", False), case.get("window", False))] if sig else []


def work(task):
    env()
    return {"seq": seq_worker, "abort": abort_worker, "threads": thread_worker, "random": random_thread_worker}[task["part"]](task)


def main(run):
    quick = run.tier == "quick"
    tasks = []
    depth = 3 if quick else 4
    for initial in ("none", "user"):
        for first in OPS:
            tasks.append({"part": "seq", "initial": initial, "first": first, "depth": depth})
        for name in OPS:
            tasks.append({"part": "abort", "initial": initial, "prefix": [], "op": name})
            if not quick:
                tasks.append({"part": "abort", "initial": initial, "prefix": ["ctor_nested"], "op": name})
    combos2 = [("flat", "flat"), ("flat", "nested"), ("nested", "list")]
    for initial in ("none", "user"):
        for kinds in combos2:
            tasks.append({"part": "threads", "kinds": list(kinds), "bound": 2, "initial": initial, "opcodes": False})
        tasks.append({"part": "threads", "kinds": ["flat", "flat", "list"], "bound": 1 if quick else 2, "initial": initial, "opcodes": False})
    # window: scheduling points only inside the protection primitive's own methods, where a deeper preemption bound is
    # affordable (a race of two first uses through an unlocked fast path needs three switches)
    # (the values must carry their modules INSIDE a container: a bare module attribute is passed through without the table)
    tasks.append({"part": "threads", "kinds": ["list", "list"], "bound": 3, "initial": "none", "opcodes": False, "window": True})
    if not quick:
        tasks.append({"part": "threads", "kinds": ["list", "list"], "bound": 4, "initial": "none", "opcodes": False, "window": True})
        tasks.append({"part": "threads", "kinds": ["nested", "list"], "bound": 3, "initial": "none", "opcodes": False, "window": True})
        tasks.append({"part": "threads", "kinds": ["list", "list", "list"], "bound": 2, "initial": "none", "opcodes": False, "window": True})
        tasks.append({"part": "threads", "kinds": ["flat", "list"], "bound": 2, "initial": "none", "opcodes": True, "max_executions": 400000})
        tasks.append({"part": "threads", "kinds": ["flat", "nested", "list"], "bound": 2, "initial": "none", "opcodes": False})
    for i in range(4):
        tasks.append({"part": "random", "kinds": ["flat", "nested", "list"][: 2 + i % 2], "initial": "none",
                      "seed": run.seed * 100 + i, "runs": 50 if quick else 500})
    sharded = []
    for t in tasks:
        if t["part"] == "threads":
            sharded += [dict(t, shard=(k, 4)) for k in range(4)]
        else:
            sharded.append(t)
    tasks = sharded
    # biggest first
    tasks.sort(key=lambda t: (t["part"] != "threads", -len(t.get("kinds", [])) * t.get("bound", 0)))
    for rec in pmap(work, tasks):
        run.merge(rec)
    run.add(rule=(
        "(a) every sequence of <= %d copying operations (12 op kinds) from 2 initial tables; (b) every abort point (each executed "
        "library line outside the primitive's own methods / with statement, each user-callback invocation) of each operation, followed "
        "by a clean copy; (c) every schedule with <= 2 preemptions of 2 threads (3 threads: bound 1 quick / 2 thorough) deep-copying "
        "module-bearing values, scheduling points = executed lines of utils/mutation.py; states = sequential states + schedules; "
        "transitions = operations + scheduling points; random schedules beyond the bound are reported separately" % depth
    ))
    run.assumptions += [
        "an exception injected inside __new__/__init__/__enter__/__exit__ of the protection primitive or at its `with` line is a fault of the bookkeeping itself, not an aborted copy (excluded)",
        "library locks are replaced by cooperative locks; preemption granularity is the source line (bytecode inside the primitive in the thorough tier)",
        "GIL-mode CPython 3.12",
    ]
