"""
C16 — decoration adds exactly the documented helpers and never replaces user code.

E4: (A) every class of the family (eager and lazy) and, for EACH generated method name of that
class (and __init__/__repr__/__eq__), the variant of the class that defines that name in its own
body as function / staticmethod / property / plain value; (B) attribute-name sets whose singular /
plural forms collide; (C) attrs / attrs_typed / attrs_skip selections, init/repr/eq switches,
private names.  The class is built UNDECORATED first (snapshot of its __dict__), then decorated,
bootstrapped, and every helper is used once (descriptor dissolution).  Oracle: every name from the
user's body keeps its identity (Attr/field declarations are replaced by their default, by design);
the set of added names equals `refnames(class)`; __spec_class_init__/repr/eq__ are present; private
attributes are unmanaged; every collection attribute has its own family of element helpers under
its singular name or <attr>_item (never shared with another attribute), or decoration raises.
"""
from __future__ import annotations

import dataclasses
import itertools

from mc import grammar as G
from mc.common import Counter, pmap, violation

PROP = "C16"
INTERNAL_OK = {"__spec_class__", "__dataclass_fields__", "__new__", "__annotations__"}
DUNDERS_ALWAYS = {"__getattr__", "__setattr__", "__delattr__", "__deepcopy__", "__spec_class_init__", "__spec_class_repr__", "__spec_class_eq__"}

PRELUDE = G.PRELUDE.replace("@spec_class\nclass Leaf", "@spec_class(bootstrap=True)\nclass Leaf").replace(
    '@spec_class(key="key")\nclass Keyed', '@spec_class(key="key", bootstrap=True)\nclass Keyed')


def singular(name):
    import inflect

    s = inflect.engine().singular_noun(name)
    if not s or s == name:
        return name + "_item"
    return s


def refnames(attrs, switches, user_names):
    """attrs: [(name, is_collection)] managed, in order.  -> (expected added names, item names) or 'RuntimeError'"""
    names = set()
    managed = [n for n, _ in attrs]
    item_of = {}
    taken = {}
    for n, coll in attrs:
        for p in ("with_", "update_", "transform_", "reset_"):
            names.add(p + n)
        if coll:
            it = singular(n)
            if it in managed or it in taken:
                it = n + "_item"  # documented fallback; if that is taken as well decoration must raise
                if it in managed or it in taken:
                    return "RuntimeError", {}
            item_of[n] = it
            taken[it] = n
    for n, it in item_of.items():
        for p in ("with_", "update_", "transform_", "without_"):
            names.add(p + it)
    names |= {"update", "transform", "reset"} | DUNDERS_ALWAYS
    for d, on in (("__init__", switches.get("init", True)), ("__repr__", switches.get("repr", True)), ("__eq__", switches.get("eq", True))):
        if on:
            names.add(d)
    return names - set(user_names), item_of


# ------------------------------------------------------------------------------------------------
def build_undecorated(body_src, extra_ns=None):
    ns = {"CB": G.CB, "PREPARERS": G.PREPARERS, "ITEM_PREPARERS": G.ITEM_PREPARERS, "__name__": "verif_c16"}
    exec(compile(PRELUDE, "<c16-prelude>", "exec", dont_inherit=True), ns)
    if extra_ns:
        ns.update(extra_ns)
    exec(compile(body_src, "<c16-class>", "exec", dont_inherit=True), ns)
    return ns


OCCUPANTS = {
    "function": "    def {n}(self, *args, **kwargs):\n        return 'user:{n}'\n",
    "staticmethod": "    @staticmethod\n    def {n}(*args, **kwargs):\n        return 'user:{n}'\n",
    "property": "    @property\n    def {n}(self):\n        return 'user:{n}'\n",
    "value": "    {n} = 'user-value:{n}'\n",
    "falsy_value": "    {n} = None\n",
    "falsy_value2": "    {n} = ()\n",
    # a user-written __new__ (lazy decoration borrows the slot until the first instantiation and has to hand it back as it was)
    "new_method": "    def {n}(cls, *args, **kwargs):\n        return object.__new__(cls)\n",
}


def judge_class(C, ns, cname, deco_kwargs, attrs, user_names, case, sig, samples=None):
    """decorate ns[cname] and check.  attrs: [(name, is_collection)] expected managed attributes"""
    from spec_classes import spec_class

    cls = ns[cname]
    before = dict(vars(cls))
    ann_before = dict(before.get("__annotations__", {}))
    exp = refnames(attrs, deco_kwargs, user_names)
    out = []
    try:
        spec_class(**deco_kwargs)(cls)
        md = cls.__spec_class__
    except RuntimeError as e:
        if exp[0] in ("RuntimeError", "Collision"):
            return out, "raised_as_allowed"
        out.append(violation(PROP, dict(sig, kind="decoration_raised", error="RuntimeError"), {"error": repr(e)[:200]}, case))
        return out, "raised"
    except Exception as e:
        out.append(violation(PROP, dict(sig, kind="decoration_raised", error=type(e).__name__), {"error": repr(e)[:200]}, case))
        return out, "raised"
    if exp[0] == "RuntimeError":
        out.append(violation(PROP, dict(sig, kind="collision_not_rejected"), {"managed": [n for n, _ in attrs]}, case))
        return out, "done"
    if exp[0] == "Collision":
        out.append(violation(PROP, dict(sig, kind="element_helpers_shadowed"), dict(exp[1], managed=[n for n, _ in attrs]), case))
        return out, "done"
    expected_added, item_of = exp

    def compare(phase):
        now = dict(vars(cls))
        for n, v in before.items():
            if n in ("__dict__", "__weakref__"):
                continue
            if n == "__annotations__":
                if now.get(n) is not v and now.get(n) != v:
                    pass
                lost = {k: t for k, t in ann_before.items() if now.get(n, {}).get(k, "<absent>") != t}
                if lost:
                    out.append(violation(PROP, dict(sig, kind="annotation_changed", phase=phase), {"changed": repr(lost)[:200]}, case))
                continue
            is_decl = type(v).__name__ == "Attr" or isinstance(v, dataclasses.Field)
            if is_decl:
                continue  # declarations are replaced by their default value, by design
            if n == "__new__" and phase == "after_decoration":
                continue  # lazily wrapped until the first instantiation
            if n not in now or now[n] is not v:
                out.append(violation(PROP, dict(sig, kind="user_definition_replaced", name=_gen(n), phase=phase,
                                                occupant=sig.get("occupant")),
                                     {"name": n, "before": repr(v)[:100], "after": repr(now.get(n, '<removed>'))[:100]}, case))
        added = set(now) - set(before) - INTERNAL_OK
        if added != expected_added:
            out.append(violation(PROP, dict(sig, kind="added_names_differ", phase=phase,
                                            unexpected=sorted(_gen(x) for x in added - expected_added)[:3],
                                            missing=sorted(_gen(x) for x in expected_added - added)[:3]),
                                 {"unexpected": sorted(added - expected_added), "missing": sorted(expected_added - added)}, case))
        for d in ("__spec_class_init__", "__spec_class_repr__", "__spec_class_eq__"):
            if not callable(now.get(d)):
                out.append(violation(PROP, dict(sig, kind="backup_dunder_missing", name=d, phase=phase), {}, case))

    compare("after_decoration")
    # managed attributes: exactly the expected ones, no private names
    if [n for n in md.attrs] != [n for n, _ in attrs] and set(md.attrs) != {n for n, _ in attrs}:
        out.append(violation(PROP, dict(sig, kind="managed_attribute_set"), {"managed": list(md.attrs), "expected": [n for n, _ in attrs]}, case))
    if any(n.startswith("_") for n in md.attrs):
        out.append(violation(PROP, dict(sig, kind="private_attribute_managed"), {"managed": list(md.attrs)}, case))
    # first use of every helper
    for n in sorted(expected_added):
        try:
            getattr(cls, n)
        except Exception as e:
            out.append(violation(PROP, dict(sig, kind="helper_access_raised", name=_gen(n), error=type(e).__name__), {"error": repr(e)[:200]}, case))
    inst = None
    if "__init__" in expected_added or deco_kwargs.get("init", True) is False:
        try:
            key = md.key
            inst = cls(**({key: "k"} if key and not md.attrs[key].has_default else {}))
        except Exception as e:
            if "__init__" in expected_added:
                out.append(violation(PROP, dict(sig, kind="instantiation_raised", error=type(e).__name__), {"error": repr(e)[:200]}, case))
    compare("after_first_use")
    # every collection attribute owns its element helpers
    if inst is not None:
        for n, it in item_of.items():
            m = getattr(inst, "with_" + it, None)
            if m is None or ("with_" + it) in user_names:
                continue
            other = {k: repr(vars(inst).get(k, "<missing>")) for k in md.attrs if k != n}
            try:
                spec = md.attrs[n]
                import spec_classes.collections as coll

                if spec.collection_mutator_type is coll.MappingMutator:
                    r = m("zk", samples.get(n, 1))
                else:
                    r = m(samples.get(n, 1))
            except Exception as e:
                continue
            changed = [k for k in md.attrs if k != n and repr(vars(r).get(k, "<missing>")) != other[k]]
            if changed or repr(vars(r).get(n, "<missing>")) == repr(vars(inst).get(n, "<missing>")):
                out.append(violation(PROP, dict(sig, kind="element_helper_acts_on_wrong_attribute", attr=n),
                                     {"helper": "with_" + it, "changed": changed}, case))
    return out, "done"


def _gen(n):
    for p in ("with_", "update_", "transform_", "reset_", "without_"):
        if n.startswith(p):
            return p + "*"
    return n


# ------------------------------------------------------------------------------------------------
# (A) occupants over the grammar family
# ------------------------------------------------------------------------------------------------
def rec_attrs(rec):
    return [(G.attr_name(a), "item" in G.KINDS[a["kind"]]) for a in rec["attrs"]]


def body_of(rec, extra=""):
    """class source WITHOUT decorators (decoration is applied by the judge)"""
    src = G.class_source(rec)
    lines = [l for l in src.split("\n") if not l.startswith("@spec_class")]
    src = "\n".join(lines)
    if extra:
        src = src.rstrip("\n") + "\n" + extra
    return src


def deco_of(rec, bootstrap):
    o = rec.get("opts", {})
    kw = {}
    if o.get("key"):
        kw["key"] = o["key"]
    if o.get("do_not_copy"):
        kw["do_not_copy"] = o["do_not_copy"]
    if bootstrap:
        kw["bootstrap"] = True
    return kw


SAMPLES = {"nums": 3, "words": "w", "scores": 1, "tags": 3, "labels": "w"}


def occupants_worker(task):
    C = Counter()
    rec = task["rec"]
    if rec.get("opts", {}).get("inherit", "none") != "none":
        return C.rec
    attrs = rec_attrs(rec)
    base_names, item_of = refnames(attrs, {}, set())
    names = sorted(base_names - DUNDERS_ALWAYS) + ["__init__", "__repr__", "__eq__"]
    variants = [(None, None)] + [(n, occ) for n in names for occ in OCCUPANTS if occ != "new_method"] + [("__new__", "new_method")]
    for bootstrap in (False, True):
        for n, occ in variants:
            if task["tier"] == "quick" and occ in ("staticmethod", "falsy_value2") and not n.startswith("__"):
                continue
            if occ in ("falsy_value", "falsy_value2") and n in ("__init__", "__repr__", "__eq__"):
                continue  # (binding a dunder to None has Python semantics of its own, e.g. __eq__ = None disables equality)
            extra = OCCUPANTS[occ].format(n=n) if n else ""
            user_names = {n} if n else set()
            case = {"part": "occupant", "rec": rec, "name": n, "occupant": occ, "bootstrap": bootstrap}
            sig = {"part": "occupant", "occupant": occ, "name": _gen(n) if n else None, "bootstrap": bootstrap,
                   "cls": rec["name"] if rec["name"].startswith("Comp") else "single",
                   "opts": "+".join(sorted(k for k, v in rec.get("opts", {}).items() if v)) or "plain"}
            try:
                ns = build_undecorated(body_of(rec, extra))
            except Exception as e:
                C.rec["errors"].append(f"cannot build {rec['name']} {n} {occ}: {e!r}")
                continue
            out, status = judge_class(C, ns, rec["name"], deco_of(rec, bootstrap), attrs, user_names, case, sig, SAMPLES)
            C.inc("states")
            C.inc("transitions")
            C.inc("evaluations")
            for v in out:
                C.viol(v)
            if not out:
                C.inc("traces_validated_against_impl")
                C.nontrivial((rec["name"], n, occ, bootstrap))
    C.sample({"part": "occupant", "class": rec["name"], "names": names[:6], "occupants": list(OCCUPANTS)})
    return C.rec


# ------------------------------------------------------------------------------------------------
# (B) naming collisions, (C) selections and switches
# ------------------------------------------------------------------------------------------------
NAMING = [
    # (attributes [(name, annotation source, default source)], note)
    [("people", "List[str]", "[]"), ("person", "str", "'p'")],
    [("people", "List[str]", "[]"), ("person", "str", "'p'"), ("people_item", "int", "0")],
    [("people", "List[str]", "[]"), ("persons", "List[str]", "[]")],
    [("persons", "Set[str]", "set()"), ("people", "Dict[str, int]", "{}")],
    [("data", "List[int]", "[]")],
    [("sheep", "List[int]", "[]")],
    [("children", "List[int]", "[]"), ("child", "int", "0")],
    [("scores", "Dict[str, int]", "{}"), ("score", "int", "0")],
    [("tags", "Set[int]", "set()"), ("tag", "int", "0")],
    [("boxes", "List[int]", "[]"), ("box", "List[int]", "[]")],
    [("items", "List[int]", "[]"), ("item", "int", "0")],
    [("indices", "List[int]", "[]"), ("indexes", "List[int]", "[]")],
    [("xs", "List[int]", "[]"), ("x", "int", "0"), ("xs_item", "List[int]", "[]")],
    [("value", "int", "0"), ("values", "List[int]", "[]"), ("value_item", "int", "0")],
    # the `<attr>_item` fallback of one collection is the singular of ANOTHER collection
    [("menu_items", "List[str]", "[]"), ("menu", "Dict[str, int]", "{}")],
    [("item", "int", "0"), ("items_items", "List[int]", "[]"), ("items", "List[int]", "[]")],
]
NAMING_SAMPLES = {"people": "w", "persons": "w", "data": 3, "sheep": 3, "children": 3, "scores": 1, "tags": 3, "boxes": 3, "box": 3,
                  "items": 3, "indices": 3, "indexes": 3, "xs": 3, "xs_item": 3, "values": 3, "menu_items": "w", "menu": 1, "items_items": 3}


def is_coll(ann):
    return ann.startswith(("List", "Dict", "Set"))


def naming_worker(task):
    C = Counter()
    for spec in task["specs"]:
        for order in ([spec, list(reversed(spec))] if len(spec) > 1 else [spec]):
            for bootstrap in (False, True):
                body = "class N:\n" + "".join(f"    {n}: {ann} = {d}\n" for n, ann, d in order)
                ns = build_undecorated(body)
                attrs = [(n, is_coll(ann)) for n, ann, d in order]
                case = {"part": "naming", "attrs": [list(x) for x in order], "bootstrap": bootstrap}
                sig = {"part": "naming", "names": "+".join(n for n, _, _ in order), "bootstrap": bootstrap}
                out, status = judge_class(C, ns, "N", {"bootstrap": True} if bootstrap else {}, attrs, set(), case, sig, NAMING_SAMPLES)
                C.inc("states")
                C.inc("transitions")
                C.inc("evaluations")
                for v in out:
                    C.viol(v)
                if not out:
                    C.inc("traces_validated_against_impl")
                    C.nontrivial(("naming", repr(order), bootstrap, status))
    C.sample({"part": "naming", "attrs": [list(x) for x in task["specs"][0]]})
    return C.rec


SHARED_ATTR_SRC = '''
SCALAR = Attr(default=1)
LISTS = Attr(default_factory=list)

@spec_class%(deco)s
class One:
    x: int = SCALAR
    y: int = SCALAR

@spec_class%(deco)s
class Two:
    values: List[int] = LISTS

@spec_class%(deco)s
class Three:
    tags: List[int] = LISTS
'''


def shared_attr_case(bootstrap, order):
    """one user-declared Attr object used for several attributes / classes: each use is a declaration of its own"""
    ns = build_undecorated(SHARED_ATTR_SRC % {"deco": "(bootstrap=True)" if bootstrap else ""})
    probs = []
    uses = {
        "One": lambda: (ns["One"]().with_x(5), ["x", "y"]),
        "Two": lambda: (ns["Two"]().with_value(3), ["values"]),
        "Three": lambda: (ns["Three"]().with_tag(4), ["tags"]),
    }
    try:
        for name in order:
            uses[name]()
        for name in ("One", "Two", "Three"):
            ns[name]()  # (lazily decorated classes carry their helpers from their first use on)
        o = ns["One"]().with_x(5)
        if (o.x, o.y) != (5, 1):
            probs.append(f"One().with_x(5) gave x={o.x!r}, y={o.y!r}")
        o = ns["One"]().with_y(6)
        if (o.x, o.y) != (1, 6):
            probs.append(f"One().with_y(6) gave x={o.x!r}, y={o.y!r}")
        for cls, helpers in (("One", ["with_x", "update_x", "transform_x", "reset_x", "with_y", "update_y", "transform_y", "reset_y"]),
                             ("Two", ["with_values", "with_value", "update_value", "transform_value", "without_value"]),
                             ("Three", ["with_tags", "with_tag", "update_tag", "transform_tag", "without_tag"])):
            missing = [h for h in helpers if not callable(getattr(ns[cls], h, None))]
            if missing:
                probs.append(f"{cls} lacks {missing}")
        if ns["Two"]().with_value(3).values != [3]:
            probs.append("Two().with_value(3) did not append to values")
        if ns["Three"]().with_tag(4).tags != [4]:
            probs.append("Three().with_tag(4) did not append to tags")
        stray = [h for h in ("with_tag", "with_tags") if hasattr(ns["Two"], h)] + [h for h in ("with_value", "with_values") if hasattr(ns["Three"], h)]
        if stray:
            probs.append(f"helpers of the other class appeared: {stray}")
    except Exception as e:
        probs.append(f"raised {type(e).__name__}: {e!s:.100}")
    return probs


def shared_attr_worker(task):
    C = Counter()
    for bootstrap in (False, True):
        for r in (0, 1, 2, 3):
            for order in itertools.permutations(("One", "Two", "Three"), r):
                probs = shared_attr_case(bootstrap, order)
                C.inc("states")
                C.inc("transitions", len(order) + 1)
                C.inc("evaluations")
                case = {"part": "shared_attr_object", "bootstrap": bootstrap, "order": list(order)}
                if probs:
                    C.viol(violation(PROP, {"part": "shared_attr_object", "bootstrap": bootstrap, "first_uses": "+".join(order) or "none",
                                            "kind": "one_attr_object_declared_twice"}, {"problems": probs[:3]}, case))
                else:
                    C.inc("traces_validated_against_impl")
                    C.nontrivial(("shared_attr", bootstrap, order))
    C.sample({"part": "shared_attr_object"})
    return C.rec


def naming_pairs_worker(task):
    """what one class needed (a singular name given away, a fallback name used) must not influence an unrelated class
    decorated later in the same process"""
    C = Counter()
    for first, second in task["pairs"]:
        src1 = "@spec_class(bootstrap=True)\nclass First:\n" + "".join(f"    {n}: {ann} = {d}\n" for n, ann, d in first)
        try:
            build_undecorated(src1)["First"]()
        except Exception:
            pass  # (a collision that cannot be resolved raises at decoration: still "a class decorated earlier")
        order = second
        body = "class N:\n" + "".join(f"    {n}: {ann} = {d}\n" for n, ann, d in order)
        ns = build_undecorated(body)
        attrs = [(n, is_coll(ann)) for n, ann, d in order]
        case = {"part": "naming_pair", "first": [list(x) for x in first], "attrs": [list(x) for x in order]}
        sig = {"part": "naming_pair", "names": "+".join(n for n, _, _ in order), "after": "+".join(n for n, _, _ in first)}
        out, status = judge_class(C, ns, "N", {}, attrs, set(), case, sig, NAMING_SAMPLES)
        C.inc("states")
        C.inc("transitions")
        C.inc("evaluations")
        for v in out:
            C.viol(v)
        if not out:
            C.inc("traces_validated_against_impl")
            C.nontrivial(("naming_pair", repr(first), repr(order), status))
    C.sample({"part": "naming_pair", "pairs": len(task["pairs"])})
    return C.rec


SELECTION_BODY = '''class Sel:
    a: int = 1
    b: List[int] = [1]
    _p: int = 5
    u = 7
    w = [1]
    def helper(self):
        return 1
'''


def selection_worker(task):
    C = Counter()
    from spec_classes import spec_class

    configs = []
    for init, repr_, eq in itertools.product((True, False), repeat=3):
        configs.append(({"init": init, "repr": repr_, "eq": eq}, [("a", False), ("b", True)]))
    configs += [
        ({"attrs": ["u"]}, [("u", False)]),
        # nominating an ANNOTATED collection by name keeps its annotation (and with it the element helpers)
        ({"attrs": ["b"]}, [("b", True)]),
        ({"attrs": ["a", "b"]}, [("a", False), ("b", True)]),
        ({"attrs": ["b", "u"]}, [("b", True), ("u", False)]),
        ({"attrs": ["u"], "attrs_skip": []}, [("a", False), ("b", True), ("u", False)]),
        ({"attrs_typed": {"w": "List[int]"}}, [("w", True)]),
        ({"attrs_typed": {"w": "List[int]"}, "attrs_skip": ["a"]}, [("b", True), ("w", True)]),
        ({"attrs_skip": ["b"]}, [("a", False)]),
        ({"attrs_skip": ["a", "b"]}, []),
        ({"attrs": ["a"], "attrs_typed": {"u": "int"}}, [("a", False), ("u", False)]),
        ({"key": "a"}, [("a", False), ("b", True)]),
        ({"init_overflow_attr": "extra"}, [("a", False), ("b", True), ("extra", True)]),
    ]
    for kw, attrs in configs:
        for bootstrap in (False, True):
            ns = build_undecorated(SELECTION_BODY)
            k2 = dict(kw)
            if "attrs_typed" in k2:
                k2["attrs_typed"] = {n: eval(t, ns) for n, t in k2["attrs_typed"].items()}
            if bootstrap:
                k2["bootstrap"] = True
            case = {"part": "selection", "kwargs": kw, "bootstrap": bootstrap}
            sig = {"part": "selection", "kwargs": "+".join(sorted(kw)), "bootstrap": bootstrap,
                   "switches": "".join(str(int(kw.get(s, True))) for s in ("init", "repr", "eq"))}
            out, status = judge_class(C, ns, "Sel", k2, attrs, set(), case, sig, {"b": 3, "w": 3, "extra": 1})
            C.inc("states")
            C.inc("transitions")
            C.inc("evaluations")
            for v in out:
                C.viol(v)
            if not out:
                C.inc("traces_validated_against_impl")
                C.nontrivial(("selection", repr(kw), bootstrap))
    # private names can never be nominated
    for kw in ({"attrs": ["_p"]}, {"attrs_typed": {"_p": int}}, {"init_overflow_attr": "_extra"}):
        C.inc("states")
        C.inc("transitions")
        C.inc("evaluations")
        try:
            spec_class(**kw)
            C.viol(violation(PROP, {"part": "selection", "kind": "private_attribute_accepted", "kwargs": "+".join(kw)}, {},
                             {"part": "private", "kwargs": {k: repr(v) for k, v in kw.items()}}))
        except ValueError:
            C.inc("traces_validated_against_impl")
            C.nontrivial(("private", repr(kw)))
    C.sample({"part": "selection", "configurations": len(configs)})
    return C.rec


INHERIT_SRC = {
    "collision_across_parent": ('''
@spec_class
class P:
    people: List[str] = []

class N(P):
    persons: Set[str] = set()
''', [("people", True), ("persons", True)], {"people": "w", "persons": "w"}),
    "collision_across_parent_rev": ('''
@spec_class
class P:
    persons: Set[str] = set()
    other: int = 0

class N(P):
    people: List[str] = []
''', [("persons", True), ("other", False), ("people", True)], {"people": "w", "persons": "w"}),
}


def inherit_worker(task):
    """(i) singular collisions split across a spec parent and a decorated subclass; (ii) a subclass that overrides a
    helper and calls super(): the user's override must survive the first call"""
    from spec_classes import spec_class

    C = Counter()
    for name, (src, attrs, samples) in INHERIT_SRC.items():
        for bootstrap in (False, True):
            ns = build_undecorated(src)
            case = {"part": "inherit", "scenario": name, "bootstrap": bootstrap}
            sig = {"part": "inherit", "scenario": name, "bootstrap": bootstrap}
            # the parent's helper names are inherited, not added to N: expectation = names for N's own attributes only
            before = dict(vars(ns["N"]))
            out = []
            try:
                spec_class(**({"bootstrap": True} if bootstrap else {}))(ns["N"])
                md = ns["N"].__spec_class__
                inst = ns["N"]()
                own = [n for n, _ in attrs if n in before.get("__annotations__", {})]
                parent_coll = [n for n, c in attrs if c and n not in own]
                for n in [x for x, c in attrs if c]:
                    it = md.attrs[n].item_name
                    r = getattr(inst, "with_" + it)(samples[n])
                    changed = [k for k in md.attrs if repr(vars(r).get(k)) != repr(vars(inst).get(k))]
                    if changed != [n]:
                        out.append(violation(PROP, dict(sig, kind="element_helper_acts_on_wrong_attribute", attr=n),
                                             {"helper": "with_" + it, "changed": changed}, case))
                names = [md.attrs[n].item_name for n, c in attrs if c]
                if len(set(names)) != len(names):
                    out.append(violation(PROP, dict(sig, kind="element_helpers_shadowed"), {"item_names": names}, case))
            except RuntimeError:
                pass  # raising is an allowed answer to a collision
            except Exception as e:
                out.append(violation(PROP, dict(sig, kind="decoration_raised", error=type(e).__name__), {"error": repr(e)[:200]}, case))
            C.inc("states"); C.inc("transitions"); C.inc("evaluations")
            for v in out:
                C.viol(v)
            if not out:
                C.inc("traces_validated_against_impl")
                C.nontrivial(("inherit", name, bootstrap))
    # (ii) subclass overriding a helper and calling super()
    for decorated in (False, True):
        for bootstrap in (False, True):
            src = '''
@spec_class%s
class P:
    x: int = 0
    xs: List[int] = []

%sclass N(P):
    def with_x(self, value, **kw):
        return super().with_x(value + 1, **kw)
    def with_x_item(self, *a, **kw):
        return "user"
    def update(self, *a, **kw):
        return super().update(*a, **kw)
''' % ("(bootstrap=True)" if bootstrap else "", "@spec_class\n" if decorated else "")
            ns = build_undecorated(src)
            N = ns["N"]
            before = {k: vars(N)[k] for k in ("with_x", "with_x_item", "update")}
            case = {"part": "inherit", "scenario": "override_calls_super", "decorated": decorated, "bootstrap": bootstrap}
            sig = {"part": "inherit", "scenario": "override_calls_super", "decorated": decorated, "bootstrap": bootstrap}
            out = []
            try:
                n = N()
                r1 = n.with_x(1)
                r2 = n.with_x(1)
                n.update(x=5)
                n.update(x=5)
                if r1.x != 2 or r2.x != 2:
                    out.append(violation(PROP, dict(sig, kind="user_override_bypassed"), {"first": r1.x, "second": r2.x}, case))
                for k, v in before.items():
                    if vars(N).get(k) is not v:
                        out.append(violation(PROP, dict(sig, kind="user_definition_replaced", name=k, phase="after_super_call"),
                                             {"name": k, "after": repr(vars(N).get(k))[:100]}, case))
            except Exception as e:
                out.append(violation(PROP, dict(sig, kind="override_raised", error=type(e).__name__), {"error": repr(e)[:200]}, case))
            C.inc("states"); C.inc("transitions"); C.inc("evaluations")
            for v in out:
                C.viol(v)
            if not out:
                C.inc("traces_validated_against_impl")
                C.nontrivial(("override_calls_super", decorated, bootstrap))
    C.sample({"part": "inherit", "scenarios": list(INHERIT_SRC) + ["override_calls_super"]})
    return C.rec


# ------------------------------------------------------------------------------------------------
# a SUBCLASS adds the attribute whose name is the singular of an inherited collection
# ------------------------------------------------------------------------------------------------
SUBCOLL = {
    "values": ("List[int]", "[]", "value", 3, lambda c: list(c)),
    "scores": ("Dict[str, int]", "{}", "score", None, None),
    "tags": ("Set[int]", "set()", "tag", 3, lambda c: sorted(c)),
}


def subclass_collision_case(coll, bootstrap, order, occupant):
    """-> problems.  P declares the collection, S(P) declares the scalar named like its singular."""
    ann, dflt, sing, elem, as_list = SUBCOLL[coll]
    deco = "@spec_class(bootstrap=True)" if bootstrap else "@spec_class"
    occ = f"    def with_{coll}_item(self, *a, **k):\n        return 'user'\n" if occupant else ""
    src = f"{deco}\nclass P:\n    {coll}: {ann} = {dflt}\n{occ}\n{deco}\nclass S(P):\n    {sing}: int = 0\n"
    ns = build_undecorated(src)
    P, S = ns["P"], ns["S"]
    user_fn = vars(P).get(f"with_{coll}_item") if occupant else None
    probs = []

    def use_P():
        if coll == "scores":
            r = getattr(P(), f"with_{sing}")("k", 3)
            if getattr(r, coll) != {"k": 3}:
                probs.append(f"P().with_{sing}('k', 3) gave {getattr(r, coll)!r}")
        else:
            r = getattr(P(), f"with_{sing}")(elem)
            if as_list(getattr(r, coll)) != [elem]:
                probs.append(f"P().with_{sing}({elem}) gave {getattr(r, coll)!r}")

    def use_S():
        S()

    try:
        for step in order:
            {"P": use_P, "S": use_S}[step]()
        # the parent is what it was declared to be, whatever its subclass needed
        if P.__spec_class__.attrs[coll].item_name != sing:
            probs.append(f"P's specification of {coll} was renamed to item_name={P.__spec_class__.attrs[coll].item_name!r} by the subclass")
        use_P()
        if occupant:
            if vars(P).get(f"with_{coll}_item") is not user_fn:
                probs.append(f"P.with_{coll}_item (defined in P's own body) was replaced")
        elif f"with_{coll}_item" in vars(P):
            probs.append(f"undocumented helper with_{coll}_item appeared on P")
        # the subclass: scalar helpers for the new attribute, element helpers of the inherited collection under <attr>_item
        r = getattr(S(), f"with_{sing}")(7)
        if getattr(r, sing, None) != 7:
            probs.append(f"S().with_{sing}(7) did not set the scalar attribute: {vars(r)!r}")
        missing = [f"{pre}_{coll}_item" for pre in ("with", "update", "transform", "without")
                   if not callable(getattr(S, f"{pre}_{coll}_item", None)) or (occupant and pre == "with")]
        if occupant:
            missing = [m for m in missing if m != f"with_{coll}_item"]
        if missing:
            probs.append(f"S lacks the element helpers of the inherited collection under the fallback name: {missing}")
        elif not occupant:
            if coll == "scores":
                r = getattr(S(), f"with_{coll}_item")("k", 3)
                ok = getattr(r, coll) == {"k": 3}
            else:
                r = getattr(S(), f"with_{coll}_item")(elem)
                ok = as_list(getattr(r, coll)) == [elem]
            if not ok:
                probs.append(f"S().with_{coll}_item(...) gave {getattr(r, coll)!r}")
    except Exception as e:
        probs.append(f"raised {type(e).__name__}: {e!s:.120}")
    return probs


def subclass_collision_worker(task):
    C = Counter()
    for coll in SUBCOLL:
        for bootstrap in (False, True):
            for order in ((), ("S",), ("P", "S"), ("S", "P"), ("P",)):
                for occupant in (False, True):
                    probs = subclass_collision_case(coll, bootstrap, order, occupant)
                    C.inc("states")
                    C.inc("transitions")
                    C.inc("evaluations")
                    case = {"part": "subclass_collision", "coll": coll, "bootstrap": bootstrap, "order": list(order), "occupant": occupant}
                    if probs:
                        C.viol(violation(PROP, {"part": "subclass_collision", "coll": coll, "bootstrap": bootstrap, "first_uses": "+".join(order) or "none",
                                                "occupant": occupant, "kind": "inherited_collection_collision"}, {"problems": probs[:4]}, case))
                    else:
                        C.inc("traces_validated_against_impl")
                        C.nontrivial(("subclass_collision", coll, bootstrap, order, occupant))
    C.sample({"part": "subclass_collision", "collections": list(SUBCOLL)})
    return C.rec


def work(task):
    return {"occupant": occupants_worker, "naming": naming_worker, "selection": selection_worker, "inherit": inherit_worker,
            "subclass_collision": subclass_collision_worker, "naming_pairs": naming_pairs_worker, "shared_attr_object": shared_attr_worker}[task["part"]](task)


def run_case(case):
    if case["part"] == "occupant":
        sub = occupants_worker({"rec": case["rec"], "tier": "thorough"})
        return [v for v in sub["violations"] if v["case"]["name"] == case["name"] and v["case"]["occupant"] == case["occupant"]
                and v["case"]["bootstrap"] == case["bootstrap"]]
    if case["part"] == "naming":
        sub = naming_worker({"specs": [[tuple(x) for x in case["attrs"]]]})
        return [v for v in sub["violations"] if v["case"]["attrs"] == case["attrs"] and v["case"]["bootstrap"] == case["bootstrap"]]
    if case["part"] == "shared_attr_object":
        probs = shared_attr_case(case["bootstrap"], tuple(case["order"]))
        return [violation(PROP, {"part": "shared_attr_object", "bootstrap": case["bootstrap"], "first_uses": "+".join(case["order"]) or "none",
                                 "kind": "one_attr_object_declared_twice"}, {"problems": probs[:3]}, case)] if probs else []
    if case["part"] == "naming_pair":
        sub = naming_pairs_worker({"pairs": [[[tuple(x) for x in case["first"]], [tuple(x) for x in case["attrs"]]]]})
        return sub["violations"]
    if case["part"] == "subclass_collision":
        probs = subclass_collision_case(case["coll"], case["bootstrap"], tuple(case["order"]), case["occupant"])
        return [violation(PROP, {"part": "subclass_collision", "coll": case["coll"], "bootstrap": case["bootstrap"],
                                 "first_uses": "+".join(case["order"]) or "none", "occupant": case["occupant"],
                                 "kind": "inherited_collection_collision"}, {"problems": probs[:4]}, case)] if probs else []
    if case["part"] == "inherit":
        sub = inherit_worker({})
        return [v for v in sub["violations"] if all(v["case"].get(k) == case.get(k) for k in ("scenario", "bootstrap", "decorated"))]
    sub = selection_worker({})
    return [v for v in sub["violations"] if v["case"].get("kwargs") == case.get("kwargs") and v["case"].get("bootstrap") == case.get("bootstrap")]


def main(run):
    quick = run.tier == "quick"
    recs = [r for r in (G.quick_family() if quick else G.full_family()) if not r.get("opts", {}).get("flip_sub")]  # (occupants are appended to the class body: the class must come last)
    tasks = [{"part": "occupant", "rec": r, "tier": run.tier} for r in recs]
    tasks += [{"part": "naming", "specs": [s]} for s in NAMING]
    tasks.append({"part": "selection"})
    tasks.append({"part": "inherit"})
    tasks.append({"part": "subclass_collision"})
    tasks.append({"part": "shared_attr_object"})
    pairs = [[a, b] for a in NAMING for b in NAMING if a is not b and {n for n, _, _ in a} & {n for n, _, _ in b}]
    pairs += [[a, [x]] for a in NAMING for x in a if len(a) > 1]  # a class holding just ONE of the attributes of an earlier class
    for i in range(0, len(pairs), 12):
        tasks.append({"part": "naming_pairs", "pairs": pairs[i:i + 12]})
    for rec in pmap(work, tasks):
        run.merge(rec)
    run.add(rule=(
        "(A) per class of the family x {lazy, eager} x every generated helper name (+ __init__/__repr__/__eq__) x occupant kind "
        "{function, staticmethod, property, plain value} (+ the unmodified class); (B) 14 attribute-name sets with singular/plural "
        "collisions in both declaration orders; (C) all init/repr/eq switch combinations and 9 attrs/attrs_typed/attrs_skip/key/overflow "
        "selections, private nominations; (D) a subclass declaring the attribute named like the singular of an inherited list/dict/set: 3 collections x "
        "{lazy, eager} x 5 orders of first uses x {with, without} a user method under the fallback name in the parent; states = class variants"
    ))
    run.assumptions += [
        "Attr(...) / dataclasses.field(...) declarations in the class body are replaced by their default value by design",
        "a user-defined __new__ may be wrapped until the first instantiation of a lazily bootstrapped class",
        "the singular form is taken from inflect directly (the documented source of the singular name)",
    ]
