"""
C11 — derived values are never stale after a dependency changes.

E1 per dependency graph (<= 4 nodes: managed / unmanaged sources, cached spec_property,
uncached spec_property(invalidated_by), Attr(invalidated_by); single edge, chains, diamond, '*',
dependant added in a subclass, cache filled in __post_init__): BFS over histories interleaving
reads (fill caches), overrides, deletions and every kind of mutation of every source (setattr,
delattr, with_/transform_/reset_, element helper, top-level update/transform/reset; in place and
copy-on-write; failing and unrelated mutations).  Oracle after every operation, on the instance
that carries the change: every derived value equals the reference getter evaluated on the current
source values (or the override assigned since the last change of a transitive dependency); an
Attr(invalidated_by) attribute is back at its default after a successful change of a dependency;
unrelated or failed mutations discard nothing (override still returned, no recomputation).
"""
from __future__ import annotations

import copy

from mc import snap
from mc.common import Counter, pmap, violation

PROP = "C11"

PRELUDE = '''
from typing import Any, Dict, List, Optional
from spec_classes import spec_class, Attr, spec_property, MISSING
CALLS = {}
def hit(n):
    CALLS[n] = CALLS.get(n, 0) + 1
'''

# graph: source text, sources {name: (kind, values)}, derived {name: (deps, python expr over state dict s, kind)}
GRAPHS = {
    "single_cached": dict(src='''
@spec_class
class G:
    a: int = 1
    b: int = 10
    @spec_property(cache=True, invalidated_by=["a"])
    def p(self):
        hit("p"); return self.a * 2
''', sources={"a": "int", "b": "int"}, derived={"p": (["a"], lambda s: s["a"] * 2, "cached")}),
    "single_cached_nodefault": dict(src='''
@spec_class
class G:
    a: int
    b: int = 10
    @spec_property(cache=True, invalidated_by=["a"])
    def p(self):
        hit("p"); return getattr(self, "a", 0) * 2
''', sources={"a": "int_nodefault", "b": "int"}, derived={"p": (["a"], lambda s: s.get("a", 0) * 2, "cached")}),
    "managed_annotated_property": dict(src='''
@spec_class
class G:
    a: int = 1
    b: int = 10
    p: int
    @spec_property(cache=True, invalidated_by=["a"])
    def p(self):
        hit("p"); return self.a * 2
''', sources={"a": "int", "b": "int"}, derived={"p": (["a"], lambda s: s["a"] * 2, "cached")}),
    "attr_invalidated": dict(src='''
@spec_class
class G:
    a: int = 1
    b: int = 10
    d: int = Attr(default=0, invalidated_by=["a"])
''', sources={"a": "int", "b": "int"}, derived={"d": (["a"], None, "attr")}),
    "chain_cached_cached": dict(src='''
@spec_class
class G:
    a: int = 1
    b: int = 10
    @spec_property(cache=True, invalidated_by=["a"])
    def p(self):
        hit("p"); return self.a * 2
    @spec_property(cache=True, invalidated_by=["p"])
    def q(self):
        hit("q"); return self.p + 1
''', sources={"a": "int", "b": "int"}, derived={"p": (["a"], lambda s: s["a"] * 2, "cached"), "q": (["p"], lambda s: s["p"] + 1, "cached")}),
    "chain_uncached_cached": dict(src='''
@spec_class
class G:
    a: int = 1
    b: int = 10
    @spec_property(invalidated_by=["a"])
    def p(self):
        hit("p"); return self.a * 2
    @spec_property(cache=True, invalidated_by=["p"])
    def q(self):
        hit("q"); return self.p + 1
''', sources={"a": "int", "b": "int"}, derived={"p": (["a"], lambda s: s["a"] * 2, "uncached"), "q": (["p"], lambda s: s["p"] + 1, "cached")}),
    "chain_attr_cached": dict(src='''
@spec_class
class G:
    a: int = 1
    b: int = 10
    d: int = Attr(default=0, invalidated_by=["a"])
    @spec_property(cache=True, invalidated_by=["d"])
    def q(self):
        hit("q"); return self.d + 100
''', sources={"a": "int", "b": "int"}, derived={"d": (["a"], None, "attr"), "q": (["d"], lambda s: s["d"] + 100, "cached")}),
    "chain3": dict(src='''
@spec_class
class G:
    a: int = 1
    @spec_property(cache=True, invalidated_by=["a"])
    def p(self):
        hit("p"); return self.a * 2
    @spec_property(cache=True, invalidated_by=["p"])
    def q(self):
        hit("q"); return self.p + 1
    @spec_property(cache=True, invalidated_by=["q"])
    def r(self):
        hit("r"); return self.q * 10
''', sources={"a": "int"}, derived={"p": (["a"], lambda s: s["a"] * 2, "cached"), "q": (["p"], lambda s: s["p"] + 1, "cached"),
                                   "r": (["q"], lambda s: s["q"] * 10, "cached")}),
    "diamond": dict(src='''
@spec_class
class G:
    a: int = 1
    b: int = 10
    @spec_property(cache=True, invalidated_by=["a"])
    def p(self):
        hit("p"); return self.a * 2
    @spec_property(cache=True, invalidated_by=["a", "b"])
    def q(self):
        hit("q"); return self.a + self.b
    @spec_property(cache=True, invalidated_by=["p", "q"])
    def r(self):
        hit("r"); return self.p + self.q
''', sources={"a": "int", "b": "int"}, derived={"p": (["a"], lambda s: s["a"] * 2, "cached"), "q": (["a", "b"], lambda s: s["a"] + s["b"], "cached"),
                                               "r": (["p", "q"], lambda s: s["p"] + s["q"], "cached")}),
    "wildcard": dict(src='''
@spec_class
class G:
    a: int = 1
    b: int = 10
    @spec_property(cache=True, invalidated_by=["*"])
    def p(self):
        hit("p"); return self.a * 2 + self.b
''', sources={"a": "int", "b": "int"}, derived={"p": (["a", "b"], lambda s: s["a"] * 2 + s["b"], "cached")}),
    "unmanaged_source": dict(src='''
@spec_class
class G:
    a: int = 1
    u = 5
    @spec_property(cache=True, invalidated_by=["u", "a"])
    def p(self):
        hit("p"); return self.a * 2 + self.u
''', sources={"a": "int", "u": "unmanaged"}, derived={"p": (["a", "u"], lambda s: s["a"] * 2 + s["u"], "cached")}),
    "list_source": dict(src='''
@spec_class
class G:
    xs: List[int] = [1]
    b: int = 10
    @spec_property(cache=True, invalidated_by=["xs"])
    def p(self):
        hit("p"); return sum(self.xs)
''', sources={"xs": "list", "b": "int"}, derived={"p": (["xs"], lambda s: sum(s["xs"]), "cached")}),
    "subclass_dependant": dict(src='''
@spec_class
class Base:
    a: int = 1
    b: int = 10
    @spec_property(cache=True, invalidated_by=["a"])
    def p(self):
        hit("p"); return self.a * 2

@spec_class
class G(Base):
    c: int = 3
    @spec_property(cache=True, invalidated_by=["a", "c"])
    def q(self):
        hit("q"); return self.a + self.c
''', sources={"a": "int", "b": "int", "c": "int"}, derived={"p": (["a"], lambda s: s["a"] * 2, "cached"), "q": (["a", "c"], lambda s: s["a"] + s["c"], "cached")}),
    "subclass_redefault_dependant": dict(src='''
@spec_class
class Base:
    a: int = 1
    b: int = 10
    d: int = Attr(default=0, invalidated_by=["a"])
    @spec_property(cache=True, invalidated_by=["a"])
    def p(self):
        hit("p"); return self.a * 2

@spec_class
class G(Base):
    d = 7
''', sources={"a": "int", "b": "int"}, derived={"d": (["a"], None, "attr"), "p": (["a"], lambda s: s["a"] * 2, "cached")}, attr_default=7),
    # cached properties declared by an UNDECORATED subclass of a spec class (plain subclasses are supported: defaults, __post_init__)
    "plain_subclass_properties": dict(src='''
@spec_class
class Base:
    a: int = 1
    b: int = 10
    @spec_property(cache=True, invalidated_by=["a"])
    def p(self):
        hit("p"); return self.a * 2

class G(Base):
    @spec_property(cache=True, invalidated_by=["a"])
    def q(self):
        hit("q"); return self.a + 100
    @spec_property(cache=True, invalidated_by="*")
    def w(self):
        hit("w"); return self.a + self.b
''', sources={"a": "int", "b": "int"}, derived={"p": (["a"], lambda s: s["a"] * 2, "cached"), "q": (["a"], lambda s: s["a"] + 100, "cached"),
                                                    "w": (["a", "b", "p", "q"], lambda s: s["a"] + s["b"], "cached")}),  # '*': every other name
    # a spec subclass serves an inherited attribute (which had dependencies of its own) through a cached property with OTHER dependencies
    "subclass_property_replaces_attr": dict(src='''
@spec_class
class Base:
    a: int = 1
    b: int = 10
    q: int = Attr(default=0, invalidated_by=["b"])

@spec_class
class G(Base):
    @spec_property(cache=True, invalidated_by=["a"])
    def q(self):
        hit("q"); return self.a * 2
''', sources={"a": "int", "b": "int"}, derived={"q": (["a"], lambda s: s["a"] * 2, "cached")}),
    # attribute names that CONTAIN the names of their dependants (`p` in `raw_p`, `p` and `q` in `pq`): names are compared whole
    "nested_names": dict(src='''
@spec_class
class G:
    raw_p: int = 1
    pq: int = 10
    @spec_property(cache=True, invalidated_by=["raw_p"])
    def p(self):
        hit("p"); return self.raw_p * 2
    @spec_property(cache=True, invalidated_by=["pq", "p"])
    def q(self):
        hit("q"); return self.p + self.pq
''', sources={"raw_p": "int", "pq": "int"}, derived={"p": (["raw_p"], lambda s: s["raw_p"] * 2, "cached"),
                                                        "q": (["pq", "p"], lambda s: s["p"] + s["pq"], "cached")}),
    # the documented way of adding accessors (`@p.getter`, `@p.setter`) REBUILDS the property: the rebuilt one still has its dependencies
    "rebuilt_property": dict(src='''
@spec_class
class G:
    a: int = 1
    b: int = 10
    @spec_property(cache=True, invalidated_by=["a"])
    def p(self):
        return -1
    @p.getter
    def p(self):
        hit("p"); return self.a * 2
    @spec_property(cache=True, invalidated_by=["a", "b"])
    def q(self):
        hit("q"); return self.a + self.b
    @q.setter
    def q(self, value):
        self.__dict__["q"] = value          # (stores an override, as the default setter would)
''', sources={"a": "int", "b": "int"}, derived={"p": (["a"], lambda s: s["a"] * 2, "cached"), "q": (["a", "b"], lambda s: s["a"] + s["b"], "cached")}),
    "failing_factory": dict(src='''
FAIL = {"on": False}
def fac():
    hit("fac")
    if FAIL["on"]:
        raise RuntimeError("default factory fails")
    return 0

@spec_class
class G:
    a: int = 1
    b: int = 10
    d: int = Attr(default_factory=fac, invalidated_by=["a"])
    @spec_property(cache=True, invalidated_by=["a"])
    def p(self):
        hit("p"); return self.a * 2
    @spec_property(cache=True, invalidated_by=["d"])
    def q(self):
        hit("q"); return self.d + 100
''', sources={"a": "int", "b": "int"}, armable=True,
        derived={"d": (["a"], None, "attr"), "p": (["a"], lambda s: s["a"] * 2, "cached"), "q": (["d"], lambda s: s["d"] + 100, "cached")}),
    "parent_written_first": dict(src='''
@spec_class
class Base:
    a: int = 1
    b: int = 10
    @spec_property(cache=True, invalidated_by=["b"])
    def pb(self):
        hit("pb"); return self.b + 1

@spec_class
class G(Base):
    @spec_property(cache=True, invalidated_by=["a"])
    def p(self):
        hit("p"); return self.a * 2
    d: int = Attr(default=0, invalidated_by=["a"])

# the PARENT class (in which nothing depends on `a`) is used first
_b = Base(); _b.a = 5; _b = _b.with_a(6); _b.b = 3
''', sources={"a": "int", "b": "int"},
        derived={"pb": (["b"], lambda s: s["b"] + 1, "cached"), "p": (["a"], lambda s: s["a"] * 2, "cached"), "d": (["a"], None, "attr")}),
    "alias_source": dict(src='''
from spec_classes import Alias
@spec_class
class G:
    a: int = 1
    b: int = 10
    al: int = Alias("a", passthrough=True)
    @spec_property(cache=True, invalidated_by=["a"])
    def p(self):
        hit("p"); return self.a * 2
    d: int = Attr(default=0, invalidated_by=["a"])
''', sources={"a": "int", "b": "int", "al": "alias"}, alias={"al": "a"},
        derived={"p": (["a"], lambda s: s["a"] * 2, "cached"), "d": (["a"], None, "attr")}),
    "failing_factory_chain": dict(src='''
FAIL = {"on": False, "skip": 0}
def fac():
    hit("fac")
    if FAIL["on"]:
        if FAIL["skip"] > 0:
            FAIL["skip"] -= 1
        else:
            raise RuntimeError("default factory fails")
    return 0

@spec_class
class G:
    a: int = 1
    b: int = 10
    @spec_property(invalidated_by=["a"])
    def rows(self):
        hit("rows"); return self.a + 1
    d: int = Attr(default_factory=fac, invalidated_by=["rows"])
    e: int = Attr(default_factory=fac, invalidated_by=["rows"])
''', sources={"a": "int", "b": "int"}, armable=True, arm_skips=(0, 1),
        derived={"rows": (["a"], lambda s: s["a"] + 1, "uncached"), "d": (["rows"], None, "attr"), "e": (["rows"], None, "attr")}),
    "post_init_fill": dict(src='''
@spec_class
class G:
    a: int = 1
    b: int = 10
    @spec_property(cache=True, invalidated_by=["a"])
    def p(self):
        hit("p"); return self.a * 2
    def __post_init__(self):
        self.p
''', sources={"a": "int", "b": "int"}, derived={"p": (["a"], lambda s: s["a"] * 2, "cached")}),
    "post_init_mutates": dict(src='''
@spec_class
class G:
    a: int = 1
    b: int = 10
    @spec_property(cache=True, invalidated_by=["a"])
    def p(self):
        hit("p"); return self.a * 2
    def __post_init__(self):
        self.p                  # fills the cache ...
        self.a = self.a + 4     # ... and then mutates the dependency
''', sources={"a": "int", "b": "int"}, derived={"p": (["a"], lambda s: s["a"] * 2, "cached")}, init_src={"a": 5}),
    "wildcard_post_init": dict(src='''
@spec_class
class G:
    a: int = 1
    b: int = 10
    d: int = Attr(default=0, invalidated_by=["a"])
    @spec_property(cache=True, invalidated_by=["*"])
    def p(self):
        hit("p"); return self.a * 2 + self.b
    def __post_init__(self):
        self.p
        self.b = 11
''', sources={"a": "int", "b": "int"}, derived={"p": (["a", "b", "d"], lambda s: s["a"] * 2 + s["b"], "cached"), "d": (["a"], None, "attr")},
        init_src={"b": 11}),
    "failing_setter": dict(src='''
@spec_class
class G:
    a: int
    b: int = 10
    d: int = Attr(default=0, invalidated_by=["a"])
    _a = 1
    @property
    def a(self):
        return self._a
    @a.setter
    def a(self, v):
        if v < 0:
            raise ValueError("negative")
        self._a = v
    @spec_property(cache=True, invalidated_by=["a"])
    def p(self):
        hit("p"); return self.a * 2
''', sources={"a": "prop_source", "b": "int"}, derived={"p": (["a"], lambda s: s["a"] * 2, "cached"), "d": (["a"], None, "attr")}),
    "nonoverridable_cached": dict(src='''
@spec_class
class G:
    a: int = 1
    b: int = 10
    @spec_property(cache=True, overridable=False, invalidated_by=["a"])
    def p(self):
        hit("p"); return self.a * 2
''', sources={"a": "int", "b": "int"}, derived={"p": (["a"], lambda s: s["a"] * 2, "cached_nooverride")}),
}
SRC_DEFAULT = {"a": 1, "b": 10, "c": 3, "u": 5, "xs": [1], "raw_p": 1, "pq": 10}


_NS = {}


def make(graph):
    """class namespace, built once per worker (the classes carry no per-class mutable state;
    instances and the call counters are fresh per build)"""
    if graph in _NS:
        _NS[graph]["CALLS"].clear()
        return _NS[graph]
    ns = {"__name__": "verif_c11"}
    exec(compile(PRELUDE, "<c11-prelude>", "exec", dont_inherit=True), ns)
    exec(compile(GRAPHS[graph]["src"], f"<c11-{graph}>", "exec", dont_inherit=True), ns)
    _NS[graph] = ns
    return ns


def transitive_dependants(g, name):
    out, todo = set(), [name]
    while todo:
        x = todo.pop()
        for d, (deps, _, _) in g["derived"].items():
            if x in deps and d not in out:
                out.add(d)
                todo.append(d)
    return out


def graph_of(g):
    for k, v in GRAPHS.items():
        if v is g:
            return k


def inc(v):
    return v + 1


def bad(v):
    return "bad"


def ops_for(graph):
    g = GRAPHS[graph]
    ops = []
    for d, (_, _, kind) in g["derived"].items():
        ops.append(["read", d])
        if kind != "attr":
            ops.append(["override", d, 777])
            ops.append(["delete", d])
        else:
            ops.append(["assign", d, 55])
    for s, kind in g["sources"].items():
        if kind == "list":
            ops += [["set", s, [2, 3]], ["with", s, [4], True], ["with", s, [5], False], ["item", s, 7, True], ["item", s, 8, False],
                    ["reset_attr", s, True], ["del", s], ["set_bad", s, "bad"]]
            continue
        if kind == "alias":
            # a passthrough Alias of a source: writing through it is a write of the source
            ops += [["set", s, 1], ["set", s, 2], ["with", s, 3, True], ["with", s, 4, False], ["update", s, 6, True], ["update", s, 6, False]]
            continue
        if kind == "prop_source":
            ops += [["set", s, 1], ["set", s, 2], ["set_fail", s, -1], ["with", s, 3, True], ["with", s, 4, False],
                    ["with_fail", s, -2, True], ["update_fail", s, -3, True], ["set_bad", s, "bad"]]
            continue
        for v in (1, 2):
            ops.append(["set", s, v])
        ops.append(["del", s])
        if kind != "unmanaged":
            ops += [["with", s, 3, True], ["with", s, 4, False], ["transform", s, True], ["transform", s, False],
                    ["reset_attr", s, True], ["reset_attr", s, False], ["update", s, 6, True], ["update", s, 6, False],
                    ["transform_top", s, True], ["set_bad", s, "bad"], ["with_bad", s, "bad", False], ["transform_bad", s, True]]
    for d, (deps, _, kind) in g["derived"].items():
        if kind == "attr":
            for dep in deps:
                if dep in g["sources"] and g["sources"][dep] == "int":
                    ops += [["update_dep_then_dependant", dep, 5, d, 9, True], ["update_dep_then_dependant", dep, 5, d, 9, False]]
    if g.get("armable"):
        # a mutation that fails while its dependants are being reset (the dependant's default_factory raises)
        ops += [["set_armed", "a", 5], ["with_armed", "a", 6, True], ["with_armed", "a", 6, False]]
        for k in g.get("arm_skips", ()):
            if k:
                # the k+1-th re-default fails: the dependants re-defaulted before it must be put back, too
                ops += [["set_armed", "a", 5, k], ["with_armed", "a", 6, True, k]]
    ops += [["reset", True], ["reset", False], ["deepcopy"]]
    return ops


class Ref:
    """reference: source values + per derived node an override (valid until a transitive dependency changes)"""

    def __init__(self, graph):
        self.g = GRAPHS[graph]
        self.src = {k: copy.deepcopy(SRC_DEFAULT[k]) for k, kind in self.g["sources"].items() if kind not in ("int_nodefault", "alias")}
        self.src.update(self.g.get("init_src", {}))
        self.override = {}
        self.attr_val = {d: self.g.get("attr_default", 0) for d, (_, _, k) in self.g["derived"].items() if k == "attr"}

    def clone(self):
        r = copy.copy(self)
        r.src = copy.deepcopy(self.src)
        r.override = dict(self.override)
        r.attr_val = dict(self.attr_val)
        return r

    def value(self, d):
        if d in self.override:
            return self.override[d]
        deps, f, kind = self.g["derived"][d]
        if kind == "attr":
            return self.attr_val[d]
        s = dict(self.src)
        for x in deps:
            if x in self.g["derived"]:
                s[x] = self.value(x)
        return f(s)

    def changed(self, name):
        for d in transitive_dependants(self.g, name):
            self.override.pop(d, None)
            if d in self.attr_val:
                self.attr_val[d] = self.g.get("attr_default", 0)
        if "*" in str([deps for deps, _, _ in self.g["derived"].values()]):
            pass

    def set_src(self, s, v):
        s = self.g.get("alias", {}).get(s, s)
        self.src[s] = v
        self.changed(s)

    def del_src(self, s):
        kind = self.g["sources"][s]
        if kind == "int_nodefault":
            if s not in self.src:
                return False
            del self.src[s]
        else:
            self.src[s] = copy.deepcopy(SRC_DEFAULT[s])
        self.changed(s)
        return True


def apply(ns, obj, ref, op):
    """execute op on the real object and on the reference.  -> (obj', ref', outcome, expect_fail)"""
    G = ns["G"]
    name = op[0]
    g = ref.g
    r2 = ref.clone()
    carrier = obj
    try:
        if name == "read":
            v = getattr(obj, op[1])
            return obj, r2, ("value", v), None
        if name == "override":
            kind = g["derived"][op[1]][2]
            if kind == "cached_nooverride":
                try:
                    setattr(obj, op[1], op[2])
                except AttributeError:
                    return obj, r2, ("raised", "AttributeError"), "expected"
                return obj, r2, ("value", None), "should_have_raised"
            setattr(obj, op[1], op[2])
            r2.override[op[1]] = op[2]
            r2.changed(op[1])
            return obj, r2, ("value", None), None
        if name == "assign":
            setattr(obj, op[1], op[2])
            r2.attr_val[op[1]] = op[2]
            r2.changed(op[1])
            return obj, r2, ("value", None), None
        if name == "delete":
            try:
                delattr(obj, op[1])
            except AttributeError:
                # nothing cached / overridden: allowed, and must change nothing
                return obj, r2, ("raised", "AttributeError"), "noop"
            r2.override.pop(op[1], None)
            r2.changed(op[1])  # a successful deletion of a listed dependency invalidates its dependants
            return obj, r2, ("value", None), None
        s = op[1] if len(op) > 1 and isinstance(op[1], str) else None
        if name == "set":
            setattr(obj, s, copy.deepcopy(op[2]))
            r2.set_src(s, copy.deepcopy(op[2]))
        elif name == "set_bad":
            try:
                setattr(obj, s, op[2])
            except (TypeError, ValueError):
                return obj, r2, ("raised", "TypeError"), "failed_mutation"
            return obj, r2, ("value", None), "should_have_raised"
        elif name in ("set_fail", "with_fail", "update_fail"):
            # a mutation that fails INSIDE the attribute write (validating property setter)
            try:
                if name == "set_fail":
                    setattr(obj, s, op[2])
                elif name == "with_fail":
                    getattr(obj, f"with_{s}")(op[2], _inplace=op[3])
                else:
                    obj.update(**{s: op[2]}, _inplace=op[3])
            except ValueError:
                return obj, r2, ("raised", "ValueError"), "failed_mutation"
            return obj, r2, ("value", None), "should_have_raised"
        elif name in ("set_armed", "with_armed"):
            ns["FAIL"]["on"] = True
            if "skip" in ns["FAIL"]:
                ns["FAIL"]["skip"] = (op[3] if name == "set_armed" and len(op) > 3 else op[4] if name == "with_armed" and len(op) > 4 else 0)
            try:
                if name == "set_armed":
                    setattr(obj, s, op[2])
                else:
                    getattr(obj, f"with_{s}")(op[2], _inplace=op[3])
            except RuntimeError:
                return obj, r2, ("raised", "RuntimeError"), "failed_mutation"
            finally:
                ns["FAIL"]["on"] = False
            return obj, r2, ("value", None), "should_have_raised"
        elif name == "del":
            try:
                delattr(obj, s)
                ok = r2.del_src(s)
            except AttributeError:
                return obj, r2, ("raised", "AttributeError"), "failed_mutation"
        elif name == "with":
            carrier = getattr(obj, f"with_{s}")(copy.deepcopy(op[2]), _inplace=op[3])
            r2.set_src(s, copy.deepcopy(op[2]))
        elif name == "with_bad":
            try:
                getattr(obj, f"with_{s}")(op[2], _inplace=op[3])
            except (TypeError, ValueError):
                return obj, r2, ("raised", "TypeError"), "failed_mutation"
            return obj, r2, ("value", None), "should_have_raised"
        elif name == "transform":
            carrier = getattr(obj, f"transform_{s}")(inc, _inplace=op[2])
            r2.set_src(s, r2.src.get(s, 0) + 1)
        elif name == "transform_bad":
            try:
                getattr(obj, f"transform_{s}")(bad, _inplace=op[2])
            except (TypeError, ValueError):
                return obj, r2, ("raised", "TypeError"), "failed_mutation"
            return obj, r2, ("value", None), "should_have_raised"
        elif name == "reset_attr":
            try:
                carrier = getattr(obj, f"reset_{s}")(_inplace=op[2])
                r2.del_src(s)
            except AttributeError:
                return obj, r2, ("raised", "AttributeError"), "failed_mutation"
        elif name == "update":
            carrier = obj.update(**{s: op[2]}, _inplace=op[3])
            r2.set_src(s, op[2])
        elif name == "update_dep_then_dependant":
            # one call naming a dependency AND (after it) its Attr(invalidated_by) dependant: keywords are applied in order,
            # so the dependant is first reset by the dependency's change and then receives the value given for it
            carrier = obj.update(**{s: op[2], op[3]: op[4]}, _inplace=op[5])
            r2.set_src(s, op[2])
            r2.attr_val[op[3]] = op[4]
            r2.changed(op[3])
        elif name == "transform_top":
            carrier = obj.transform(**{s: inc}, _inplace=op[2])
            r2.set_src(s, r2.src.get(s, 0) + 1)
        elif name == "item":
            carrier = obj.with_x(op[2], _inplace=op[3])
            r2.set_src(s, list(r2.src[s]) + [op[2]])
        elif name == "reset":
            carrier = obj.reset(_inplace=op[1])
            # reset deletes every MANAGED attribute that currently has something to delete
            for k, kind in g["sources"].items():
                if kind in ("unmanaged", "prop_source", "alias"):
                    continue  # (a property-backed attribute without deleter cannot be deleted: reset leaves it)
                r2.del_src(k)
            for d in r2.attr_val:
                r2.attr_val[d] = r2.g.get("attr_default", 0)
                r2.changed(d)
            if graph_of(g) == "managed_annotated_property" and "p" in r2.override:
                r2.override.pop("p", None)
                r2.changed("p")
        elif name == "deepcopy":
            carrier = copy.deepcopy(obj)
        else:
            raise ValueError(op)
    except Exception as e:
        if name in ("transform", "transform_top") and s not in ref.src:
            return obj, ref, ("raised", type(e).__name__), "failed_mutation"  # transform of a missing source
        return obj, ref, ("raised", type(e).__name__ + ": " + str(e)[:120]), "unexpected"
    return carrier, r2, ("value", None), None


def build(graph, hist):
    ns = make(graph)
    obj = ns["G"]()
    ref = Ref(graph)
    if graph == "post_init_fill":
        pass
    for op in hist:
        obj, ref, _, _ = apply(ns, obj, ref, op)
    return ns, obj, ref


def check_derived(ns, obj, ref, graph, out, case, sig, phase):
    """read every derived value on a CLONE world (reads fill caches) and compare with the reference"""
    g = GRAPHS[graph]
    for d in g["derived"]:
        try:
            got = getattr(obj, d)
        except Exception as e:
            got = "raised " + type(e).__name__
        try:
            want = ref.value(d)
        except KeyError:
            want = None
            continue
        if got != want:
            out.append(violation(PROP, dict(sig, kind="stale_or_wrong_derived_value", derived=d, derived_kind=g["derived"][d][2], phase=phase),
                                 {"derived": d, "got": repr(got), "expected": repr(want), "sources": repr(ref.src), "overrides": repr(ref.override)}, case))
            return False
    return True


def fingerprint(obj):
    return repr(sorted((k, repr(v)) for k, v in vars(obj).items()))


def step(graph, hist, op, out):
    ns, obj, ref = build(graph, hist)
    CALLS = ns["CALLS"]
    case = {"graph": graph, "history": [list(o) for o in hist], "op": list(op)}
    sig = {"graph": graph, "op": op[0], "inplace": op[-1] if isinstance(op[-1], bool) else None}
    fp0 = fingerprint(obj)
    calls0 = dict(CALLS)
    old_obj = obj
    obj2, ref2, outcome, note = apply(ns, obj, ref, op)
    ok = True
    if note == "unexpected":
        out.append(violation(PROP, dict(sig, kind="unexpected_exception"), {"outcome": outcome[1]}, case))
        return False, None
    if note == "should_have_raised":
        out.append(violation(PROP, dict(sig, kind="should_have_raised"), {}, case))
        return False, None
    if note in ("failed_mutation", "noop", "expected"):
        # a failed mutation discards nothing
        if fingerprint(old_obj) != fp0:
            out.append(violation(PROP, dict(sig, kind="failed_mutation_discarded_state"), {"before": fp0, "after": fingerprint(old_obj)}, case))
            ok = False
    # unrelated mutation: caches / overrides of non-dependants survive (no recomputation on re-read)
    if note is None and op[0] in ("set", "with", "transform", "update", "transform_top", "reset_attr", "del", "item") and obj2 is old_obj:
        s = op[1]
        deps = transitive_dependants(GRAPHS[graph], s)
        d0 = vars(old_obj)
        for d, (_, _, kind) in GRAPHS[graph]["derived"].items():
            if d in deps or kind == "attr":
                continue
    if op[0] == "read" and outcome[0] == "value":
        want = ref.value(op[1])
        if outcome[1] != want:
            out.append(violation(PROP, dict(sig, kind="stale_or_wrong_derived_value", derived=op[1], derived_kind=GRAPHS[graph]["derived"][op[1]][2], phase="read"),
                                 {"got": repr(outcome[1]), "expected": repr(want), "sources": repr(ref.src), "overrides": repr(ref.override)}, case))
            ok = False
    # derived values on the instance that carries the change (checked on a replayed twin so that
    # these reads do not perturb the explored state)
    ns3, obj3, ref3 = build(graph, tuple(hist) + (tuple(op),))
    calls_before = dict(ns3["CALLS"])
    ok = check_derived(ns3, obj3, ref3, graph, out, case, sig, "after_op") and ok
    # no recomputation of values unrelated to the change: second read must not call getters again for cached nodes
    calls_mid = dict(ns3["CALLS"])
    check_derived(ns3, obj3, ref3, graph, [], case, sig, "reread")
    for d, (_, _, kind) in GRAPHS[graph]["derived"].items():
        if kind.startswith("cached") and ns3["CALLS"].get(d, 0) != calls_mid.get(d, 0):
            out.append(violation(PROP, dict(sig, kind="cache_not_kept", derived=d), {"calls": [calls_mid.get(d, 0), ns3["CALLS"].get(d, 0)]}, case))
            ok = False
    # the receiver of a copy-on-write call stays consistent with the old reference
    if obj2 is not old_obj and note is None:
        ns4, obj4, ref4 = build(graph, hist)
        apply(ns4, obj4, ref4, op)
        ok = check_derived(ns4, obj4, ref4, graph, out, case, sig, "receiver_after_cow") and ok
    return ok, (ref2, obj2)


def ref_key(ref):
    return (repr(sorted(ref.src.items())), repr(sorted(ref.override.items())), repr(sorted(ref.attr_val.items())))


def explore(task):
    graph, depth = task["graph"], task["depth"]
    C = Counter()
    ops = ops_for(graph)
    ns, obj, ref = build(graph, ())
    seen = {(ref_key(ref), fingerprint(obj)): ()}
    frontier = [()]
    d = 0
    cap = task.get("max_states", 1500)
    capped = False
    while frontier and d < depth:
        nxt = []
        for hist in frontier:
            for op in ops:
                out = []
                ok, res = step(graph, hist, op, out)
                C.inc("transitions")
                C.inc("evaluations")
                for v in out:
                    C.viol(v)
                if not ok or res is None:
                    continue
                C.inc("traces_validated_against_impl")
                ref2, obj2 = res
                key = (ref_key(ref2), fingerprint(obj2))
                if key not in seen:
                    C.nontrivial((graph, key))
                    if len(seen) >= cap:
                        capped = True
                        continue
                    seen[key] = hist + (tuple(op),)
                    nxt.append(hist + (tuple(op),))
        frontier = nxt
        d += 1
    C.rec["states"] = len(seen)
    C.rec["extra"]["max_depth"] = d
    C.rec["extra"]["graphs"] = [f"{graph}: states={len(seen)} depth={d} fixpoint={not frontier}"]
    if capped:
        C.rec["extra"]["capped_graphs"] = [graph]
    C.sample({"graph": graph, "deepest_history": [list(o) for o in max(seen.values(), key=len)]})
    return C.rec


def run_case(case):
    out = []
    step(case["graph"], tuple(tuple(o) for o in case["history"]), case["op"], out)
    return out


def main(run):
    quick = run.tier == "quick"
    tasks = [{"graph": g, "depth": 4 if quick else 6, "max_states": 800 if quick else 8000} for g in GRAPHS]
    for rec in pmap(explore, tasks):
        run.merge(rec)
    run.add(rule=(
        "per dependency graph (%d graphs)" % len(GRAPHS) + ": BFS over histories of {read, override, delete of each derived value; setattr / delattr / "
        "with_ / transform_ / reset_ / update / transform / element helper (in place and copy-on-write), failing and unrelated mutations "
        "of each source; reset; deepcopy}; state = (reference state, instance fingerprint); after every transition all derived values "
        "are read on a replayed twin and compared with the reference getters; non-trivial = new distinct state"
    ))
    run.assumptions += [
        "invalidation by a (transitive) dependency also discards a user override of the dependant (the next read recomputes)",
        "initial assignment inside __init__ is construction, not mutation; caches filled by a preparer before later attributes are initialised are outside the quantifier",
        "depth-bounded (3 quick / 5 thorough) unless the per-graph state space reaches fixpoint earlier (reported per graph)",
    ]
