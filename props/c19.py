"""
C19 — lazy bootstrapping equals eager bootstrapping under every thread interleaving.

(a) Sequential E4: for every class body of the family and every first trigger (instantiation,
    C.__spec_class__, C.__dataclass_fields__, dataclasses.fields, use through a subclass), on a
    fresh lazily-decorated class, the canonical class description and constructed instances equal
    those of the same body decorated with bootstrap=True.
(b) Threads E3: 2 and 3 threads each performing a first use (all trigger combinations); scheduling
    points = every executed line of spec_class.py and methods/base.py; all schedules with <= 1
    (quick) / 2 (thorough, small classes) preemptions; fresh classes per execution; the library's
    RLock replaced by a cooperative lock.  No thread may raise, and the final class description
    and every thread's own observations must equal the sequential eager result.
"""
from __future__ import annotations

import dataclasses
import inspect
import os
import itertools
import random
import sys

from mc import sched, snap
from mc.common import Counter, pmap, violation

PROP = "C19"

BODIES = {
    "plain2": '''
class C:
    a: int = 1
    b: List[int] = [1]
''',
    "attr_factory": '''
class C:
    a: int = Attr(default=3, repr=False)
    b: List[int] = Attr(default_factory=lambda: [1, 2])
    c: str = Attr(default="z", init=False)
''',
    "field_decl": '''
class C:
    a: int = field(default=3, repr=False)
    b: List[int] = field(default_factory=lambda: [1, 2])
    c: str = field(default="z", init=False, compare=False)
''',
    "one_attr": '''
class C:
    b: List[int] = Attr(default_factory=lambda: [1], repr=False)
''',
    "keyed_preparer": '''
class C:
    key: str
    vals: List[int] = Attr(default_factory=list)
    def _prepare_vals(self, v):
        return list(v)
    def _prepare_val(self, v):
        return int(v)
''',
    "inherit_lazy_parent": '''
class P:
    a: int = Attr(default=3, repr=False)
    xs: List[int] = Attr(default_factory=lambda: [1])

@spec_class%(deco)s
class C(P):
    a = 5
    z: str = Attr(default="z", init=False)
''',
    "lazy_parent_with_new": '''
class P:
    a: int = 1
    def __new__(cls, *args, **kwargs):
        inst = object.__new__(cls)
        object.__setattr__(inst, "made_by_p_new", True)
        return inst

@spec_class%(deco)s
class C(P):
    z: int = 2
''',
    # ONE configured decorator object applied to two unrelated classes, the other class being used first
    "shared_decorator": '''
configured = spec_class(%(kw)s)

@configured
class Other:
    q: str = "q"
    ws: List[str] = []

@configured
class C:
    a: int = 1
    b: List[int] = [1]

Other()
''',
    # two lazily decorated classes whose attributes are typed with EACH OTHER, first used by different threads
    "mutual_reference": '''
class C:
    a: int = Attr(default=3, repr=False)
    others: List["D"] = Attr(default_factory=list)
    partner: "D"

class D:
    z: int = 2
    back: List["C"] = Attr(default_factory=list)
    first: "C"

C = spec_class(%(kw)s)(C)
D = spec_class(%(kw)s)(D)
''',
    "inherit_collision": '''
class P:
    a: int = 1
    values: List[int] = Attr(default_factory=list)

@spec_class%(deco)s
class C(P):
    value: int = 0
''',
    "own_new": '''
class C:
    a: int = Attr(default=3, repr=False)
    def __new__(cls, *args, **kwargs):
        inst = object.__new__(cls)
        object.__setattr__(inst, "made_by_user_new", True)
        return inst
''',
    "inherited_new": '''
class C(BaseWithNew):
    a: int = Attr(default=3, repr=False)
    b: List[int] = Attr(default_factory=lambda: [1])
''',
    "nested_self": '''
class C:
    a: int = Attr(default=3)
    kids: List["C"] = Attr(default_factory=list)
    leaf: Leaf = Attr(default_factory=Leaf)
''',
    "invalidated": '''
class C:
    a: int = 1
    d: int = Attr(default=0, invalidated_by=["a"])
    @spec_property(cache=True, invalidated_by=["a"])
    def p(self):
        return self.a * 2
''',
}
KEYED = {"keyed_preparer"}
SELF_DECORATED = {"shared_decorator", "mutual_reference"}  # the body writes its own decorators: %(kw)s is 'bootstrap=True' or empty
PARENT_DECORATED = {"inherit_lazy_parent", "inherit_collision", "lazy_parent_with_new"}

PRELUDE = '''
import dataclasses
from dataclasses import field
from typing import Any, Dict, List, Optional, Set
from spec_classes import spec_class, Attr, spec_property, MISSING

class BaseWithNew:
    def __new__(cls, *args, **kwargs):
        inst = object.__new__(cls)
        object.__setattr__(inst, "made_by_base_new", True)
        return inst

@spec_class(bootstrap=True)
class Leaf:
    x: int = 0
'''


def make_classes(body, eager):
    """fresh namespace with class C (and P) decorated lazily or eagerly"""
    ns = {"__name__": "verif_c19"}
    if body in ("mutual_reference",):
        # forward references are resolved in the namespace of the class's MODULE: give these classes a real one
        import sys
        import types

        mod = types.ModuleType("verif_c19_forward_refs")
        sys.modules[mod.__name__] = mod
        ns = mod.__dict__
    exec(compile(PRELUDE, "<c19-prelude>", "exec", dont_inherit=True), ns)
    deco = "(bootstrap=True)" if eager else ""
    kw = []
    if body in KEYED:
        kw.append('key="key"')
    if eager:
        kw.append("bootstrap=True")
    top = "@spec_class(" + ", ".join(kw) + ")" if kw else "@spec_class"
    src = BODIES[body].lstrip("\n")
    if body in SELF_DECORATED:
        src = src % {"kw": "bootstrap=True" if eager else ""}
    elif body in PARENT_DECORATED:
        src = top + "\n" + (src % {"deco": deco})
    else:
        src = top + "\n" + src
    exec(compile(src, f"<c19-{body}>", "exec", dont_inherit=True), ns)
    return ns


# ------------------------------------------------------------------------------------------------
# triggers (first uses) and observations
# ------------------------------------------------------------------------------------------------
def _ctor_args(body):
    return {"key": "k"} if body in KEYED else {}


def describe_instance(inst):
    d = {k: snap.canon([v]) for k, v in sorted(vars(inst).items())}
    try:
        r = repr(inst)
    except Exception as e:
        r = "repr raised " + type(e).__name__
    return {"repr": r, "dict": repr(d)}


TRIGGERS = ["instantiate", "instantiate_kw", "spec_class_attr", "dataclass_fields", "dataclasses_fields", "subclass_instantiate", "subclass_meta",
            "meta_then_helper", "fields_then_helper", "subclass_own_new_instantiate", "instantiate_other"]


def trigger(ns, body, name):
    C = ns["C"]
    if name == "instantiate":
        return ("inst", describe_instance(C(**_ctor_args(body))))
    if name == "instantiate_kw":
        first = "vals" if body in KEYED else ("b" if body in ("one_attr",) else "a")
        val = [7] if first in ("vals", "b") else 9
        return ("inst", describe_instance(C(**dict(_ctor_args(body), **{first: val}))))
    if name == "spec_class_attr":
        md = C.__spec_class__
        return ("meta", sorted(md.attrs))
    if name == "dataclass_fields":
        return ("fields", sorted(C.__dataclass_fields__))
    if name == "dataclasses_fields":
        return ("fields", sorted(f.name for f in dataclasses.fields(C)))
    if name == "subclass_instantiate":
        Sub = type("Sub", (C,), {})
        return ("inst", describe_instance(Sub(**_ctor_args(body))))
    if name == "instantiate_other":
        # the first use of ANOTHER lazily decorated class of the same module (the one C refers to, where there is one)
        other = ns.get("D", C)
        return ("inst", describe_instance(other(**(_ctor_args(body) if other is C else {}))), sorted(other.__spec_class__.attrs))
    if name == "subclass_own_new_instantiate":
        # the first use comes through a subclass with a cooperative __new__ of its own (which counts its calls): one
        # instantiation is one call, whether or not the parent still had to be bootstrapped
        calls = []

        def __new__(cls, *args, **kwargs):
            calls.append(1)
            return super(Sub, cls).__new__(cls)

        Sub = type("Sub", (C,), {"__new__": __new__})
        inst = Sub(**_ctor_args(body))
        return ("inst+new_calls", describe_instance(inst), len(calls))
    if name == "meta_then_helper":
        md = C.__spec_class__
        first = next(iter(md.attrs))
        helper = getattr(C, "with_" + first)  # a class seen as bootstrapped must already carry its helpers
        return ("meta+helper", sorted(md.attrs), callable(helper), sorted(n for n in ("__init__", "__setattr__", "update", "reset") if n in vars(C)))
    if name == "fields_then_helper":
        fields = C.__dataclass_fields__
        first = next(iter(fields))
        helper = getattr(C, "with_" + first)  # a class that hands out its fields must already carry its helpers
        return ("fields+helper", sorted(fields), callable(helper), sorted(n for n in ("__init__", "__setattr__", "update", "reset") if n in vars(C)))
    if name == "subclass_meta":
        Sub = type("Sub", (C,), {})
        return ("meta", sorted(Sub.__spec_class__.attrs))
    raise ValueError(name)


def describe_class(C):
    """canonical description of a bootstrapped class (forces generation of every helper)"""
    md = C.__spec_class__
    out = {"key": md.key, "frozen": md.frozen, "overflow": md.init_overflow_attr, "do_not_copy": md.do_not_copy,
           "owner": md.owner.__name__, "post_init": bool(md.post_init)}
    attrs = {}
    for n, a in md.attrs.items():
        attrs[n] = {
            "type": str(a.type), "default": repr(snap.canon([a.default])), "factory": a.default_factory is not MISSING_OBJ() and bool(a.default_factory),
            "init": a.init, "repr": a.repr, "compare": a.compare, "owner": getattr(a.owner, "__name__", None),
            "do_not_copy": a.do_not_copy, "invalidated_by": list(a.invalidated_by or ()), "is_masked": a.is_masked,
            "prepare": bool(a.prepare), "prepare_item": bool(a.prepare_item),
            "item_name": a.item_name if a.is_collection else None,
        }
    out["attrs"] = attrs
    out["attr_order"] = list(md.attrs)
    methods = {}
    for name in sorted(set(dir(C))):
        if name.startswith("__") and not name.startswith("__spec_class_") and name not in ("__init__", "__repr__", "__eq__"):
            continue  # (__new__ is not a generated helper: the lazy decorator installs a pass-through by design)
        try:
            m = inspect.getattr_static(C, name)
            v = getattr(C, name)
        except Exception as e:
            methods[name] = "getattr raised " + type(e).__name__
            continue
        if callable(v) and not isinstance(v, type):
            try:
                methods[name] = str(inspect.signature(v))
            except Exception:
                methods[name] = "<no signature>"
    out["methods"] = methods
    out["class_defaults"] = {n: repr(snap.canon([vars(C)[n]])) for n in md.attrs if n in vars(C) and not callable(vars(C)[n])}
    out["invalidation_map"] = {k: sorted(v) for k, v in sorted(md.invalidation_map.items())}
    out["new_is_wrapper"] = bool(getattr(vars(C).get("__new__"), "__spec_classes_new_wrapper__", False))
    return out


def MISSING_OBJ():
    import spec_classes

    return spec_classes.MISSING


def light_description(C):
    """cheap summary; the full description is computed once per distinct summary"""
    md = C.__spec_class__
    return repr((
        md.key, md.frozen, md.init_overflow_attr, md.do_not_copy, md.owner.__name__,
        [(n, str(a.type), repr(a.default)[:60], bool(a.default_factory), a.init, a.repr, a.compare, getattr(a.owner, "__name__", None),
          a.do_not_copy, tuple(a.invalidated_by or ()), a.is_masked, bool(a.prepare), bool(a.prepare_item))
         for n, a in md.attrs.items()],
        sorted(k for k in vars(C) if not (k.startswith("__") and k.endswith("__")) or k.startswith("__spec_class_") or k in ("__init__", "__repr__", "__eq__", "__setattr__", "__delattr__", "__getattr__", "__deepcopy__")),
        [(n, repr(vars(C)[n])[:60]) for n in md.attrs if n in vars(C) and not callable(vars(C)[n])],
        type(vars(C).get("__spec_class__")).__name__, type(vars(C).get("__dataclass_fields__")).__name__,
    ))


_FULL = {}


def description_via_light(C, body):
    k = (body, light_description(C))
    if k not in _FULL:
        _FULL[k] = describe_class(C)
    return _FULL[k]


_EAGER = {}


def eager_reference(body):
    """(class description, {trigger: observation}) of the eagerly bootstrapped twin, sequentially"""
    if body not in _EAGER:
        obs = {}
        for t in TRIGGERS:
            ns = make_classes(body, eager=True)
            obs[t] = trigger(ns, body, t)
        ns = make_classes(body, eager=True)
        trigger(ns, body, "instantiate")
        desc = describe_class(ns["C"])
        desc["new_is_wrapper"] = False
        _EAGER[body] = (desc, obs)
    return _EAGER[body]


def diff(a, b, path=""):
    if type(a) is not type(b):
        return [f"{path}: {a!r:.80} != {b!r:.80}"]
    if isinstance(a, dict):
        out = []
        for k in sorted(set(a) | set(b), key=repr):
            if k not in a or k not in b:
                out.append(f"{path}.{k}: {'absent' if k not in a else repr(a[k])[:60]} vs {'absent' if k not in b else repr(b[k])[:60]}")
            else:
                out += diff(a[k], b[k], f"{path}.{k}")
        return out[:6]
    return [] if a == b else [f"{path}: {a!r:.80} != {b!r:.80}"]


def install_coop_lock(coop):
    import threading

    mod = sys.modules["spec_classes.spec_class"]
    mod.RLock = sched.CoopRLock if coop else threading.RLock


# ------------------------------------------------------------------------------------------------
# (a) sequential triggers
# ------------------------------------------------------------------------------------------------
def seq_worker(task):
    C = Counter()
    body = task["body"]
    install_coop_lock(False)
    desc_e, obs_e = eager_reference(body)
    for t in TRIGGERS:
        for t2 in TRIGGERS[:2] + [None]:
            ns = make_classes(body, eager=False)
            case = {"part": "sequential", "body": body, "triggers": [t, t2]}
            C.inc("states")
            try:
                o1 = trigger(ns, body, t)
                o2 = trigger(ns, body, t2) if t2 else None
                trigger(ns, body, "instantiate")
                desc = describe_class(ns["C"])
            except Exception as e:
                C.viol(violation(PROP, {"part": "sequential", "kind": "raised", "body": body, "trigger": t, "error": type(e).__name__},
                                 {"error": repr(e)[:200]}, case))
                continue
            C.inc("transitions", 2 if t2 else 1)
            C.inc("evaluations")
            dd = diff(desc, desc_e, "class")
            if o1 != obs_e[t]:
                dd.append(f"observation of {t}: {o1!r:.120} != eager {obs_e[t]!r:.120}")
            if t2 and o2 != obs_e[t2]:
                dd.append(f"observation of {t2}: {o2!r:.120} != eager {obs_e[t2]!r:.120}")
            if dd:
                C.viol(violation(PROP, {"part": "sequential", "kind": "differs_from_eager", "body": body, "trigger": t, "first_diff": dd[0].split(":")[0]},
                                 {"diffs": dd[:5]}, case))
            else:
                C.inc("traces_validated_against_impl")
                C.nontrivial((body, t, t2))
    C.sample({"part": "sequential", "body": body, "triggers": TRIGGERS})
    return C.rec


# ------------------------------------------------------------------------------------------------
# (b) threads
# ------------------------------------------------------------------------------------------------
SCHED_FILES = ["spec_classes/spec_class.py", "spec_classes/methods/base.py"]
ALL_LIB = ["/spec_classes/"]


def judge_threads(s, ns, body, triggers, desc_e, obs_e):
    """-> (kind, detail) or (None, None)"""
    if s.deadlock:
        return "deadlock", {}
    if s.horizon_hit:
        return "horizon", {}
    for i, t in enumerate(triggers):
        if s.errors[i] is not None:
            return "thread_raised", {"thread": i, "trigger": t, "error": repr(s.errors[i])[:200], "etype": type(s.errors[i]).__name__}
    for i, t in enumerate(triggers):
        if s.results[i] != obs_e[t]:
            return "thread_observation_differs", {"thread": i, "trigger": t, "got": repr(s.results[i])[:300], "eager": repr(obs_e[t])[:300]}
    try:
        if trigger(ns, body, "instantiate") != obs_e["instantiate"]:
            return "instance_after_run_differs", {}
        desc = description_via_light(ns["C"], body)
    except Exception as e:
        return "class_unusable_afterwards", {"error": repr(e)[:200], "etype": type(e).__name__}
    dd = diff(desc, desc_e, "class")
    if dd:
        return "class_differs_from_eager", {"diffs": dd[:5], "first": dd[0].split(":")[0]}
    return None, None


def thread_violation(s, body, triggers, kind, detail, files_tag):
    ch = s.choices()
    dev = [(i, c) for i, c in enumerate(ch) if c != 0]
    sig = {"part": "threads", "kind": kind, "body": body, "threads": len(triggers)}
    if "etype" in detail:
        sig["error"] = detail["etype"]
    if "first" in detail:
        sig["first_diff"] = detail["first"]
    return violation(PROP, sig,
                     dict(detail, deviations=dev[:6], points=len(ch), triggers=triggers,
                          at=[list(s.points[i].where) if isinstance(s.points[i].where, tuple) else s.points[i].where for i, _ in dev[:4]]),
                     {"part": "threads", "body": body, "triggers": triggers, "choices": ch, "files": files_tag})


def thread_worker(task):
    if os.environ.get("VERIF_FAULTHANDLER"):  # (diagnostic aid: kill -USR1 <worker> prints the stacks of all its threads)
        import faulthandler
        import signal

        faulthandler.register(signal.SIGUSR1, all_threads=True)
    C = Counter()
    body, triggers, bound = task["body"], task["triggers"], task["bound"]
    install_coop_lock(False)
    desc_e, obs_e = eager_reference(body)
    install_coop_lock(True)
    files = SCHED_FILES if task.get("files", "core") == "core" else ALL_LIB
    outcomes = {}

    def make():
        ns = make_classes(body, eager=False)
        bodies = [(lambda t=t: trigger(ns, body, t)) for t in triggers]
        return bodies, ns

    def judge(s, ns):
        C.inc("transitions", len(s.points))
        C.inc("evaluations")
        kind, detail = judge_threads(s, ns, body, triggers, desc_e, obs_e)
        key = kind or "ok"
        if kind in ("thread_raised",):
            key += ":" + detail["etype"]
        outcomes[key] = outcomes.get(key, 0) + 1
        if kind:
            C.viol(thread_violation(s, body, triggers, kind, detail, task.get("files", "core")))
        else:
            C.inc("traces_validated_against_impl")
            C.nontrivial(tuple(s.choices()))

    stats = sched.explore(make, files, bound, judge, max_executions=task.get("max_executions"), shard=task.get("shard"))
    install_coop_lock(False)
    C.rec["states"] = stats["executions"]
    C.rec["extra"]["schedules"] = stats["executions"]
    C.rec["extra"]["max_points"] = stats["max_points"]
    C.rec["extra"]["schedules_with_lock_contention"] = stats["contended"]
    C.rec["extra"]["determinism_replays"] = stats.get("determinism_replays", 0)
    C.rec["extra"]["schedules_truly_interleaved"] = stats["interleaved"]
    C.rec["extra"]["thread_outcomes"] = outcomes
    if stats["capped"]:
        C.rec["exhaustive"] = False
        C.rec["extra"]["capped_thread_tasks"] = [f"{body}/{triggers}/bound{bound}"]
    C.sample({"part": "threads", "body": body, "triggers": triggers, "bound": bound, "schedules": stats["executions"],
              "points_per_schedule": stats["max_points"], "outcomes": outcomes})
    return C.rec


def random_worker(task):
    C = Counter()
    rnd = random.Random(task["seed"])
    body, triggers = task["body"], task["triggers"]
    install_coop_lock(False)
    desc_e, obs_e = eager_reference(body)
    install_coop_lock(True)
    n = 0
    for _ in range(task["runs"]):
        ns = make_classes(body, eager=False)
        bodies = [(lambda t=t: trigger(ns, body, t)) for t in triggers]
        # randomly prioritised: long stretches of one thread with occasional switches
        prefix = []
        cur = 0
        for _i in range(6000):
            if rnd.random() < 0.01:
                cur = rnd.randrange(len(triggers))
            prefix.append(cur)
        s = sched.Scheduler(bodies, SCHED_FILES, prefix=prefix, clamp=True)
        s.run()
        n += 1
        kind, detail = judge_threads(s, ns, body, triggers, desc_e, obs_e)
        if kind:
            C.viol(thread_violation(s, body, triggers, kind, detail, "core"))
    install_coop_lock(False)
    return {"violations": C.rec["violations"], "errors": [], "extra": {"random_schedules": n}}


# ------------------------------------------------------------------------------------------------
# (c) a first use that FAILS: eager decoration raises; lazily every use raises the same error until the cause is
#     gone, and the class bootstrapped afterwards is the eager one (never a half-assembled class handed out quietly)
# ------------------------------------------------------------------------------------------------
FAILING = {
    # the generated constructor cannot have a parameter named `class`: the LAST phase of the bootstrap fails, always
    "keyword_attr": dict(src='''
@spec_class(%(args)sattrs_typed={"class": int})
class C:
    pass
''', error="ValueError", recovers=False),
    # the user's annotation callback fails once (forward reference not resolvable yet), then succeeds
    "annotation_types_once": dict(src='''
FAIL = {"n": %(fail)d}
@spec_class(%(args)s)
class C:
    a: "Later" = None
    b: List[int] = Attr(default_factory=lambda: [1])
    @staticmethod
    def ANNOTATION_TYPES():
        if FAIL["n"] > 0:
            FAIL["n"] -= 1
            raise RuntimeError("types not ready")
        return {"Later": Optional[int]}
''', error="RuntimeError", recovers=True),
    # lazily decorated parent fails once while its lazily decorated child is being used
    "parent_fails_once": dict(src='''
FAIL = {"n": %(fail)d}
@spec_class(%(args)s)
class P:
    a: "Later" = None
    @staticmethod
    def ANNOTATION_TYPES():
        if FAIL["n"] > 0:
            FAIL["n"] -= 1
            raise RuntimeError("types not ready")
        return {"Later": Optional[int]}
@spec_class(%(args)s)
class C(P):
    b: List[int] = Attr(default_factory=lambda: [1])
''', error="RuntimeError", recovers=True),
}
FAIL_TRIGGERS = ["instantiate", "spec_class_attr", "dataclass_fields", "subclass_instantiate", "meta_then_helper"]


def failing_classes(name, eager, fail):
    ns = {"__name__": "verif_c19"}
    exec(compile(PRELUDE, "<c19-prelude>", "exec", dont_inherit=True), ns)
    src = FAILING[name]["src"] % {"args": "bootstrap=True, " if eager and "attrs_typed" in FAILING[name]["src"] else ("bootstrap=True" if eager else ""), "fail": fail}
    exec(compile(src, f"<c19-failing-{name}>", "exec", dont_inherit=True), ns)
    return ns


def failing_case(name, triggers):
    """-> list of problems"""
    F = FAILING[name]
    probs = []
    # eager reference: decoration raises while the cause is present ...
    try:
        failing_classes(name, eager=True, fail=1)
        probs.append("eager decoration did not raise (harness expectation)")
    except Exception as e:
        if type(e).__name__ != F["error"]:
            probs.append(f"eager decoration raised {type(e).__name__}")
    desc_e = None
    if F["recovers"]:
        desc_e = light_description(failing_classes(name, eager=True, fail=0)["C"])
    ns = failing_classes(name, eager=False, fail=1)
    failures_left = 1 if F["recovers"] else 10 ** 6
    for i, t in enumerate(triggers):
        try:
            trigger(ns, "plain2", t)
            raised = None
        except Exception as e:
            raised = type(e).__name__
        if failures_left > 0:
            failures_left -= 1
            if raised != F["error"]:
                probs.append(f"use #{i + 1} ({t}) while the cause is present: {'returned' if raised is None else 'raised ' + raised} instead of raising {F['error']}")
        elif raised is not None:
            probs.append(f"use #{i + 1} ({t}) after the cause is gone raised {raised}")
    if F["recovers"] and len(triggers) > 1 and not probs:
        d = diff(light_description(ns["C"]), desc_e, "class")
        if d:
            probs.append("class bootstrapped after the failed first use differs from the eager one: " + d[0])
    return probs


def failing_worker(task):
    C = Counter()
    name = task["name"]
    install_coop_lock(False)
    seqs = [s for r in (1, 2, 3) for s in itertools.product(FAIL_TRIGGERS, repeat=r)]
    for seq in seqs:
        probs = failing_case(name, seq)
        C.inc("states")
        C.inc("transitions", len(seq))
        C.inc("evaluations")
        if probs:
            C.viol(violation(PROP, {"part": "failing_first_use", "kind": "failed_bootstrap_mishandled", "body": name, "first": seq[0], "uses": len(seq)},
                             {"problems": probs[:4]}, {"part": "failing_first_use", "body": name, "triggers": list(seq)}))
        else:
            C.inc("traces_validated_against_impl")
            C.nontrivial((name, seq))
    C.sample({"part": "failing_first_use", "body": name, "sequences": len(seqs)})
    return C.rec


def run_case(case):
    if case["part"] == "failing_first_use":
        install_coop_lock(False)
        probs = failing_case(case["body"], tuple(case["triggers"]))
        seq = case["triggers"]
        return [violation(PROP, {"part": "failing_first_use", "kind": "failed_bootstrap_mishandled", "body": case["body"], "first": seq[0], "uses": len(seq)},
                          {"problems": probs[:4]}, case)] if probs else []
    body = case["body"]
    install_coop_lock(False)
    desc_e, obs_e = eager_reference(body)
    if case["part"] == "sequential":
        sub = seq_worker({"body": body})
        return [v for v in sub["violations"] if v["case"]["triggers"] == case["triggers"]]
    install_coop_lock(True)
    try:
        ns = make_classes(body, eager=False)
        bodies = [(lambda t=t: trigger(ns, body, t)) for t in case["triggers"]]
        files = SCHED_FILES if case.get("files", "core") == "core" else ALL_LIB
        s = sched.Scheduler(bodies, files, prefix=case["choices"])
        s.run()
        if s.divergence:
            raise sched.ReplayDivergence(s.divergence)
        kind, detail = judge_threads(s, ns, body, case["triggers"], desc_e, obs_e)
    finally:
        install_coop_lock(False)
    return [thread_violation(s, body, case["triggers"], kind, detail, case.get("files", "core"))] if kind else []


def work(task):
    return {"seq": seq_worker, "threads": thread_worker, "random": random_worker, "failing": failing_worker}[task["part"]](task)


def main(run):
    quick = run.tier == "quick"
    tasks = [{"part": "seq", "body": b} for b in BODIES] + [{"part": "failing", "name": n} for n in FAILING]
    pairs = [("instantiate", "instantiate"), ("instantiate", "meta_then_helper"), ("instantiate", "fields_then_helper"), ("spec_class_attr", "dataclass_fields"),
             ("instantiate_kw", "subclass_instantiate"), ("dataclasses_fields", "instantiate"), ("subclass_meta", "instantiate")]
    bodies_q = ["attr_factory", "one_attr", "inherit_lazy_parent", "own_new", "inherit_collision"]
    # (the two module-level bodies have their own thread tasks below / are sequential by nature)
    skip = () if os.environ.get("VERIF_C19_ONLY_BODY") else ("shared_decorator", "mutual_reference")
    for b in (bodies_q if quick else [x for x in BODIES if x not in skip]):
        for tp in (pairs[:3] if quick else pairs):
            tasks.append({"part": "threads", "body": b, "triggers": list(tp), "bound": 1})
    if not quick:
        tasks.append({"part": "threads", "body": "one_attr", "triggers": ["instantiate", "instantiate"], "bound": 2})
    tasks.append({"part": "threads", "body": "one_attr", "triggers": ["instantiate", "instantiate", "meta_then_helper"], "bound": 0 if quick else 1})
    tasks.append({"part": "threads", "body": "mutual_reference", "triggers": ["instantiate", "instantiate_other"],
                  "bound": int(os.environ.get("VERIF_C19_MUTUAL_BOUND", "1"))})
    tasks.append({"part": "threads", "body": "mutual_reference", "triggers": ["instantiate_other", "meta_then_helper"], "bound": 1})
    if not quick:
        for b in ("attr_factory", "inherit_lazy_parent"):
            tasks.append({"part": "threads", "body": b, "triggers": ["instantiate", "instantiate"], "bound": 2})
            tasks.append({"part": "threads", "body": b, "triggers": ["instantiate", "meta_then_helper", "subclass_instantiate"], "bound": 1})
        tasks.append({"part": "threads", "body": "one_attr", "triggers": ["instantiate", "meta_then_helper"], "bound": 2})
        tasks.append({"part": "threads", "body": "attr_factory", "triggers": ["instantiate", "instantiate"], "bound": 1, "files": "all"})
    for i, b in enumerate(("attr_factory", "inherit_lazy_parent")):
        tasks.append({"part": "random", "body": b, "triggers": ["instantiate", "instantiate_kw", "meta_then_helper"],
                      "seed": run.seed * 10 + i, "runs": 20 if quick else 300})
    only = os.environ.get("VERIF_C19_ONLY_BODY")  # (diagnostic aid: restrict the run to the tasks of one body)
    if only:
        tasks = [t for t in tasks if t.get("body") == only]
    sharded = []
    for t in tasks:
        if t["part"] == "threads":
            n = 16 if (t["bound"] >= 2 or len(t["triggers"]) > 2) else 8
            sharded += [dict(t, shard=(k, n)) for k in range(n)]
        else:
            sharded.append(t)
    tasks = sharded
    tasks.sort(key=lambda t: (t["part"] != "threads", -t.get("bound", 0)))
    for rec in pmap(work, tasks):
        run.merge(rec)
    run.add(rule=(
        "(a) every class body x every first trigger (x an optional second use) on a fresh lazily decorated class vs the eagerly "
        "bootstrapped twin; (b) per (body, trigger tuple): every schedule with <= bound preemptions of 2-3 real threads each performing "
        "a first use, scheduling points = executed lines of spec_class.py + methods/base.py, fresh classes per execution; states = "
        "sequential configurations + schedules, transitions = trigger executions + scheduling points; (c) 3 classes whose first use fails "
        "(always / once) x every sequence of <= 3 uses: each use raises the eager error while the cause lasts and the class built afterwards is the eager one"
    ))
    run.assumptions += [
        "the library's RLock is replaced by a cooperative re-entrant lock; preemption granularity = source line in the scheduling files, other code runs atomically",
        "__new__ itself is not compared (the lazy decorator installs a pass-through __new__ by design)",
        "GIL-mode CPython 3.12",
    ]
