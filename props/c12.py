"""
C12 — spec_property and classproperty follow the override / cache / getter protocol.

Engine E1 in fixpoint mode: for each configuration, BFS over operation histories (read, assign
v1/v2/ill-typed, delete, change underlying state) on fresh real classes/instances, rebuilt by
replay; state key = (reference state, fingerprint of the real instance/descriptor state), so every
distinct real state is expanded even if the reference thinks it is an old one.  The reference
`refprop` is an explicit slot machine: slot in {EMPTY, OVERRIDE v, CACHED v} + underlying state.
Value and exception type of every access are compared.
"""
from __future__ import annotations

import itertools

from mc.common import Counter, pmap, violation

PROP = "C12"
V1, V2, BAD = 5, 6, "bad"
HOSTS = ["plain", "spec_unannotated", "spec_managed", "spec_managed_preparer", "spec_managed_illtyped_getter", "plain_none_getter",
         "spec_managed_optional"]


# ------------------------------------------------------------------------------------------------
# spec_property hosts (fresh class per build)
# ------------------------------------------------------------------------------------------------
def make_host(cfg):
    from spec_classes import spec_class, spec_property

    overridable, cache, has_fset, has_fdel, host = cfg["overridable"], cfg["cache"], cfg["fset"], cfg["fdel"], cfg["host"]
    illtyped = host == "spec_managed_illtyped_getter"
    calls = {"get": 0}

    def getter(self):
        calls["get"] += 1
        if illtyped:
            return "ill" + str(self.base)
        if host in ("plain_none_getter", "spec_managed_optional") and self.base == 2:
            return None  # a legitimate getter result that happens to be None
        return self.base * 10

    p = spec_property(getter, overridable=overridable, cache=cache)
    if has_fset:

        def fset(self, v):
            self.base = v

        p = p.setter(fset)
    if has_fdel:

        def fdel(self):
            self.base = 0

        p = p.deleter(fdel)
    ns = {"p": p}
    if host in ("plain", "plain_none_getter"):

        def __init__(self):
            self.base = 1

        ns["__init__"] = __init__
        cls = type("PlainHost", (), ns)
    else:
        ann = {"base": int}
        ns["base"] = 1
        if host == "spec_managed_optional":
            from typing import Optional

            ann["p"] = Optional[int]
        elif host != "spec_unannotated":
            ann["p"] = int
        if host == "spec_managed_preparer":

            def _prepare_p(self, v):
                return v + 1000 if isinstance(v, int) and not isinstance(v, bool) else v

            ns["_prepare_p"] = _prepare_p
        ns["__annotations__"] = ann
        cls = spec_class(type("SpecHost", (), ns))
    return cls, calls


class RefProp:
    """slot machine"""

    def __init__(self, cfg):
        self.cfg = cfg
        self.slot = None  # None | ("O", v) | ("C", v)
        self.base = 1

    def key(self):
        return (self.slot, self.base)

    def managed(self):
        return self.cfg["host"].startswith("spec_managed")

    def getter(self):
        if self.cfg["host"] in ("plain_none_getter", "spec_managed_optional") and self.base == 2:
            return None
        return self.base * 10

    def prep(self, v):
        if self.cfg["host"] == "spec_managed_preparer" and isinstance(v, int) and not isinstance(v, bool):
            return v + 1000
        return v

    def typed_ok(self, v):
        if self.cfg["host"] == "spec_managed_optional":
            return v is None or isinstance(v, int)
        return (not self.managed()) or (isinstance(v, int))

    def apply(self, op):
        """-> ('value', v) | ('raise', {types})"""
        c = self.cfg
        name = op[0]
        if name == "read":
            if self.slot is not None:
                return ("value", self.slot[1])
            if c["host"] == "spec_managed_illtyped_getter":
                return ("raise", {"TypeError", "ValueError"})
            try:
                self.getter()  # the harness' getter multiplies the underlying state (None * 10 raises, 'bad' * 10 does not)
            except TypeError:
                return ("raise", {"TypeError"})
            g = self.prep(self.getter()) if self.managed() else self.getter()
            if c["cache"]:
                self.slot = ("C", g)
            return ("value", g)
        if name == "assign":
            v = op[1]
            if self.managed():
                v = self.prep(v)
                if not self.typed_ok(v):
                    return ("raise", {"TypeError", "ValueError"})
            if c["fset"]:
                if c["host"] not in ("plain", "plain_none_getter") and not isinstance(v, int):
                    # the custom setter writes a managed int attribute: ill-typed -> TypeError
                    return ("raise", {"TypeError"})
                self.base = v
                return ("value", None)
            if c["overridable"]:
                self.slot = ("O", v)
                return ("value", None)
            return ("raise", {"AttributeError"})
        if name == "delete":
            if c["fdel"]:
                self.base = 0
                return ("value", None)
            if self.slot is not None:
                self.slot = None
                return ("value", None)
            return ("raise", {"AttributeError"})
        if name == "set_base":
            self.base = op[1]
            return ("value", None)
        raise ValueError(op)


def impl_apply(obj, op):
    name = op[0]
    try:
        if name == "read":
            return ("value", obj.p)
        if name == "assign":
            obj.p = op[1]
            return ("value", None)
        if name == "delete":
            del obj.p
            return ("value", None)
        if name == "set_base":
            obj.base = op[1]
            return ("value", None)
    except Exception as e:
        return ("raise", e)
    raise ValueError(op)


def exc_family(e):
    for b in (AttributeError, TypeError, ValueError, KeyError):
        if isinstance(e, b):
            return b.__name__
    return type(e).__name__


def fingerprint(obj):
    return repr(sorted((k, repr(v)) for k, v in vars(obj).items()))


OPS = [["read"], ["assign", V1], ["assign", V2], ["assign", BAD], ["assign", None], ["delete"], ["set_base", 1], ["set_base", 2]]


def build(cfg, hist):
    cls, calls = make_host(cfg)
    obj = cls()
    ref = RefProp(cfg)
    for op in hist:
        ref.apply(op)
        impl_apply(obj, op)
    return obj, ref, calls


def step_sp(cfg, hist, op, out):
    obj, ref, calls = build(cfg, hist)
    fp0 = fingerprint(obj)
    k0 = ref.key()
    exp = ref.apply(op)
    got = impl_apply(obj, op)
    case = {"kind": "spec_property", "cfg": cfg, "history": list(hist), "op": op}
    sig = {"target": "spec_property", "host": cfg["host"], "overridable": cfg["overridable"], "cache": cfg["cache"],
           "fset": cfg["fset"], "fdel": cfg["fdel"], "op": op[0]}
    ok = True
    if exp[0] == "raise":
        if got[0] != "raise":
            out.append(violation(PROP, dict(sig, kind="should_raise", expected=sorted(exp[1])),
                                 {"got": repr(got[1])[:80], "model_state_before": repr(k0)}, case))
            return False, obj, ref
        if exc_family(got[1]) not in exp[1]:
            out.append(violation(PROP, dict(sig, kind="wrong_exception", expected=sorted(exp[1]), got=exc_family(got[1])),
                                 {"raised": repr(got[1])[:200]}, case))
            ok = False
        if fingerprint(obj) != fp0:
            out.append(violation(PROP, dict(sig, kind="changed_on_raise"),
                                 {"before": fp0, "after": fingerprint(obj), "raised": repr(got[1])[:120]}, case))
            ok = False
        return ok, obj, ref
    if got[0] == "raise":
        out.append(violation(PROP, dict(sig, kind="unexpected_raise", got=exc_family(got[1])),
                             {"raised": repr(got[1])[:200], "expected": repr(exp[1]), "model_state_before": repr(k0)}, case))
        return False, obj, ref
    if got[1] != exp[1] or type(got[1]) is not type(exp[1]):
        out.append(violation(PROP, dict(sig, kind="wrong_value"),
                             {"expected": repr(exp[1]), "got": repr(got[1])[:80], "model_state_before": repr(k0),
                              "history": hist}, case))
        ok = False
    return ok, obj, ref


def explore_sp(cfg):
    C = Counter()
    seen = {}
    frontier = [()]
    obj, ref, _ = build(cfg, ())
    seen[(ref.key(), fingerprint(obj))] = ()
    depth = 0
    while frontier:
        nxt = []
        for hist in frontier:
            for op in OPS:
                if op == ["assign", BAD] and False:
                    continue
                out = []
                ok, obj, ref = step_sp(cfg, hist, op, out)
                C.inc("transitions")
                C.inc("evaluations")
                for v in out:
                    C.viol(v)
                if not ok:
                    continue
                C.inc("traces_validated_against_impl")
                key = (ref.key(), fingerprint(obj))
                if key not in seen:
                    seen[key] = hist + (op,)
                    nxt.append(hist + (op,))
                    depth = max(depth, len(hist) + 1)
                    C.nontrivial((repr(cfg), repr(key)))
        frontier = nxt
    C.rec["states"] = len(seen)
    C.rec["extra"]["max_depth"] = depth
    C.sample({"cfg": cfg, "deepest_history": list(max(seen.values(), key=len)), "states": len(seen)})
    return C.rec


# ------------------------------------------------------------------------------------------------
# classproperty over A > B > C
# ------------------------------------------------------------------------------------------------
def make_hierarchy(cfg):
    from spec_classes import classproperty

    def getter(cls):
        return cls._base * 10 + cls._idx

    p = classproperty(getter, overridable=cfg["overridable"], cache=cfg["cache"], cache_per_subclass=cfg["per_subclass"])
    if cfg["fset"]:

        def fset(cls, v):
            cls._base = v

        p = p.setter(fset)
    if cfg["fdel"]:

        def fdel(cls):
            cls._base = 0

        p = p.deleter(fdel)
    A = type("A", (), {"p": p, "_base": 1, "_idx": 0})
    B = type("B", (A,), {"_idx": 1})
    Cc = type("C", (B,), {"_idx": 2})
    return {"A": A, "B": B, "C": Cc}


class RefClassProp:
    def __init__(self, cfg):
        self.cfg = cfg
        self.cache = {}  # key -> value
        # `_base` is looked up through the MRO: a custom setter invoked through class X assigns X._base
        self.base = {"A": 1}

    def key(self):
        return (tuple(sorted(self.cache.items(), key=repr)), tuple(sorted(self.base.items())))

    def _k(self, X):
        return X if self.cfg["per_subclass"] else None

    def _base(self, X):
        for c in {"A": ["A"], "B": ["B", "A"], "C": ["C", "B", "A"]}[X]:
            if c in self.base:
                return self.base[c]

    def apply(self, op):
        name, X = op[0], op[1]
        k = self._k(X)
        if name in ("read_cls", "read_inst"):
            if k in self.cache:
                return ("value", self.cache[k])
            v = self._base(X) * 10 + "ABC".index(X)
            if self.cfg["cache"]:
                self.cache[k] = v
            return ("value", v)
        if name == "assign":
            if self.cfg["fset"]:
                self.base[X] = op[2]
                return ("value", None)
            if self.cfg["overridable"]:
                self.cache[k] = op[2]
                return ("value", None)
            return ("raise", {"AttributeError"})
        if name == "delete":
            if self.cfg["fdel"]:
                self.base[X] = 0
                return ("value", None)
            if k in self.cache:
                del self.cache[k]
                return ("value", None)
            return ("raise", {"AttributeError"})
        if name == "set_base":
            self.base["A"] = op[2]
            return ("value", None)
        raise ValueError(op)


def cp_impl_apply(H, op):
    name, X = op[0], op[1]
    cls = H[X]
    try:
        if name == "read_cls":
            return ("value", cls.p)
        if name == "read_inst":
            return ("value", cls().p)
        if name == "assign":
            cls().p = op[2]
            return ("value", None)
        if name == "delete":
            del cls().p
            return ("value", None)
        if name == "set_base":
            H["A"]._base = op[2]
            return ("value", None)
    except Exception as e:
        return ("raise", e)
    raise ValueError(op)


CP_OPS = (
    [["read_cls", X] for X in "ABC"] + [["read_inst", X] for X in "ABC"] + [["assign", X, V1] for X in "ABC"]
    + [["assign", "B", V2]] + [["delete", X] for X in "ABC"] + [["set_base", "A", 1], ["set_base", "A", 2]]
)


def cp_fingerprint(H):
    d = vars(H["A"])["p"]
    cache = getattr(d, "_cache", {})
    return repr((sorted(((getattr(k, "__name__", None), v) for k, v in cache.items()), key=repr),
                 [vars(H[x]).get("_base") for x in "ABC"]))


def cp_build(cfg, hist):
    H = make_hierarchy(cfg)
    ref = RefClassProp(cfg)
    for op in hist:
        ref.apply(op)
        cp_impl_apply(H, op)
    return H, ref


def step_cp(cfg, hist, op, out):
    H, ref = cp_build(cfg, hist)
    fp0 = cp_fingerprint(H)
    k0 = ref.key()
    exp = ref.apply(op)
    got = cp_impl_apply(H, op)
    case = {"kind": "classproperty", "cfg": cfg, "history": list(hist), "op": op}
    sig = dict(cfg, target="classproperty", op=op[0], via=op[1])
    ok = True
    if exp[0] == "raise":
        if got[0] != "raise":
            out.append(violation(PROP, dict(sig, kind="should_raise", expected=sorted(exp[1])),
                                 {"got": repr(got[1])[:80], "model_state_before": repr(k0)}, case))
            return False, H, ref
        if exc_family(got[1]) not in exp[1]:
            out.append(violation(PROP, dict(sig, kind="wrong_exception", got=exc_family(got[1])),
                                 {"raised": repr(got[1])[:200]}, case))
            ok = False
        if cp_fingerprint(H) != fp0:
            out.append(violation(PROP, dict(sig, kind="changed_on_raise"), {"before": fp0, "after": cp_fingerprint(H)}, case))
            ok = False
        return ok, H, ref
    if got[0] == "raise":
        out.append(violation(PROP, dict(sig, kind="unexpected_raise", got=exc_family(got[1])),
                             {"raised": repr(got[1])[:200], "expected": repr(exp[1]), "model_state_before": repr(k0)}, case))
        return False, H, ref
    if got[1] != exp[1]:
        out.append(violation(PROP, dict(sig, kind="wrong_value"),
                             {"expected": repr(exp[1]), "got": repr(got[1])[:80], "model_state_before": repr(k0)}, case))
        ok = False
    return ok, H, ref


def explore_cp(cfg):
    C = Counter()
    H, ref = cp_build(cfg, ())
    seen = {(ref.key(), cp_fingerprint(H)): ()}
    frontier = [()]
    depth = 0
    cap = cfg.get("state_cap", 4000)
    capped = False
    while frontier and not capped:
        nxt = []
        for hist in frontier:
            for op in CP_OPS:
                out = []
                ok, H, ref = step_cp(cfg, hist, op, out)
                C.inc("transitions")
                C.inc("evaluations")
                for v in out:
                    C.viol(v)
                if not ok:
                    continue
                C.inc("traces_validated_against_impl")
                key = (ref.key(), cp_fingerprint(H))
                if key not in seen:
                    if len(seen) >= cap:
                        capped = True
                        continue
                    seen[key] = hist + (op,)
                    nxt.append(hist + (op,))
                    depth = max(depth, len(hist) + 1)
                    C.nontrivial((repr(cfg), repr(key)))
        frontier = nxt
    C.rec["states"] = len(seen)
    C.rec["extra"]["max_depth"] = depth
    if capped:
        C.rec["exhaustive"] = False
        C.rec["extra"]["capped"] = [repr(cfg)]
    C.sample({"cfg": cfg, "deepest_history": list(max(seen.values(), key=len)), "states": len(seen)})
    return C.rec


# ------------------------------------------------------------------------------------------------
# one spec_property object reached through several classes (inheritance / mixin)
# ------------------------------------------------------------------------------------------------
def make_shared(cfg):
    """-> {class name: class}; all share ONE spec_property object `p` whose getter returns base * 10 (an int)"""
    from spec_classes import spec_class, spec_property

    def getter(self):
        return self.base * 10

    p = spec_property(getter, cache=cfg["cache"])
    if cfg["family"] == "reannotate":
        Base = spec_class(type("Base", (), {"__annotations__": {"base": int, "p": int}, "base": 1, "p": p}))
        # the subclass re-declares the attribute with another type: the int result must be refused THERE
        Sub = spec_class(type("Sub", (Base,), {"__annotations__": {"p": str}}))
        return {"Base": Base, "Sub": Sub}
    if cfg["family"] == "repreparer":
        def prep_base(self, v):
            return v + 1000

        def prep_sub(self, v):
            return v + 2000

        Base = spec_class(type("Base", (), {"__annotations__": {"base": int, "p": int}, "base": 1, "p": p, "_prepare_p": prep_base}))
        Sub = spec_class(type("Sub", (Base,), {"__annotations__": {"p": int}, "_prepare_p": prep_sub}))
        return {"Base": Base, "Sub": Sub}
    # mixin: the property lives on a plain class; a plain user is unchecked, a spec user is checked
    Mixin = type("Mixin", (), {"p": p, "base": 1})
    PlainUser = type("PlainUser", (Mixin,), {})
    SpecUser = spec_class(type("SpecUser", (Mixin,), {"__annotations__": {"base": int, "p": str}, "base": 1}))
    return {"PlainUser": PlainUser, "SpecUser": SpecUser}


SHARED_EXPECT = {
    "reannotate": {"Base": ("value", 10), "Sub": ("raise", None)},
    "repreparer": {"Base": ("value", 1010), "Sub": ("value", 2010)},
    "mixin": {"PlainUser": ("value", 10), "SpecUser": ("raise", None)},
}


def shared_case(cfg, order, out):
    classes = make_shared(cfg)
    ok = True
    for i, name in enumerate(order):
        try:
            got = ("value", classes[name]().p)
        except (TypeError, ValueError) as e:
            got = ("raise", None)
        except Exception as e:
            got = ("raise", type(e).__name__)
        want = SHARED_EXPECT[cfg["family"]][name]
        if got != want:
            out.append(violation(PROP, {"target": "shared_spec_property", "family": cfg["family"], "cache": cfg["cache"], "kind": "wrong_read_through_class",
                                        "cls": name, "position": i, "first_reader": order[0]},
                                 {"expected": repr(want), "got": repr(got), "order": list(order)},
                                 {"kind": "shared", "cfg": cfg, "order": list(order)}))
            ok = False
    return ok


def explore_shared(cfg):
    C = Counter()
    names = sorted(SHARED_EXPECT[cfg["family"]])
    orders = [o for r in (1, 2, 3) for o in itertools.product(names, repeat=r)]
    for order in orders:
        out = []
        ok = shared_case(cfg, order, out)
        C.inc("transitions", len(order))
        C.inc("evaluations", len(order))
        C.inc("states")
        for v in out:
            C.viol(v)
        if ok:
            C.inc("traces_validated_against_impl", len(order))
            C.nontrivial((repr(cfg), order))
    C.sample({"target": "shared_spec_property", "cfg": cfg, "orders": len(orders)})
    return C.rec


# ------------------------------------------------------------------------------------------------
# a property DERIVED (.getter / .setter / .deleter) from one that has already been used
# ------------------------------------------------------------------------------------------------
DERIVE_PRE = ["read_base", "override_base", "none"]
DERIVE_VIA = ["getter", "setter", "deleter"]


def derived_case(cfg, pre, via):
    """-> problems.  Base.p (classproperty or spec_property) is used (pre), THEN a second class gets its own property derived
    from Base's descriptor.  The two properties are two properties: nothing stored for one may show through the other."""
    from spec_classes import classproperty, spec_property

    kind = cfg["kind"]
    mk = classproperty if kind == "classproperty" else spec_property
    kwargs = {"overridable": True, "cache": cfg["cache"]}
    if kind == "classproperty":
        base_prop = mk(lambda cls: "base-value", **kwargs)
    else:
        base_prop = mk(lambda self: "base-value", **kwargs)
    Base = type("Base", (), {"p": base_prop})
    b = Base()
    probs = []
    if pre == "read_base":
        (Base.p if kind == "classproperty" else b.p)
    elif pre == "override_base":
        b.p = "base-override"
    d = Base.__dict__["p"]
    if via == "getter":
        new = d.getter((lambda cls: "derived-value") if kind == "classproperty" else (lambda self: "derived-value"))
        want_derived = "derived-value"
    elif via == "setter":
        new = d.setter(lambda obj, v: None)
        want_derived = "base-value"
    else:
        new = d.deleter(lambda obj: None)
        want_derived = "base-value"
    Other = type("Other", (), {"p": new})
    o = Other()
    got = Other.p if kind == "classproperty" else o.p
    if got != want_derived:
        probs.append(f"derived property read {got!r}, expected {want_derived!r} (what was stored for the property it was derived from shows through)")
    want_base = "base-override" if pre == "override_base" else "base-value"
    gb = Base.p if kind == "classproperty" else b.p
    if gb != want_base:
        probs.append(f"base property read {gb!r}, expected {want_base!r}")
    if via == "getter":
        # an override of the derived property must not reach the base property
        try:
            o.p = "derived-override"
            gb2 = Base.p if kind == "classproperty" else b.p
            if gb2 != want_base:
                probs.append(f"override of the derived property changed the base property to {gb2!r}")
        except AttributeError:
            probs.append("derived property lost overridable=True")
    return probs


def derived_worker(task):
    C = Counter()
    for kind, cache, pre, via in itertools.product(("classproperty", "spec_property"), (False, True), DERIVE_PRE, DERIVE_VIA):
        cfg = {"kind": kind, "cache": cache}
        probs = derived_case(cfg, pre, via)
        C.inc("states")
        C.inc("transitions", 4)
        C.inc("evaluations")
        case = {"kind": "derived", "cfg": cfg, "pre": pre, "via": via}
        if probs:
            C.viol(violation(PROP, {"target": "derived_property", "of": kind, "cache": cache, "pre": pre, "via": via, "kind": "derived_property_shares_state"},
                             {"problems": probs[:3]}, case))
        else:
            C.inc("traces_validated_against_impl")
            C.nontrivial(("derived", kind, cache, pre, via))
    C.sample({"target": "derived_property", "pre": DERIVE_PRE, "via": DERIVE_VIA})
    return C.rec


def run_case(case):
    if case.get("kind") == "derived":
        cfg = case["cfg"]
        probs = derived_case(cfg, case["pre"], case["via"])
        return [violation(PROP, {"target": "derived_property", "of": cfg["kind"], "cache": cfg["cache"], "pre": case["pre"], "via": case["via"],
                                 "kind": "derived_property_shares_state"}, {"problems": probs[:3]}, case)] if probs else []
    if case.get("kind") == "shared":
        out = []
        shared_case(case["cfg"], tuple(case["order"]), out)
        return out
    out = []
    if case["kind"] == "spec_property":
        step_sp(case["cfg"], tuple(case["history"]), case["op"], out)
    else:
        step_cp(case["cfg"], tuple(case["history"]), case["op"], out)
    return out


def work(item):
    if item["kind"] == "derived":
        return derived_worker(item)
    if item["kind"] == "shared":
        return explore_shared(item["cfg"])
    if item["kind"] == "spec_property":
        return explore_sp(item["cfg"])
    return explore_cp(item["cfg"])


def main(run):
    items = []
    for host in HOSTS:
        for ov, ca, fs, fd in itertools.product((True, False), repeat=4):
            items.append({"kind": "spec_property", "cfg": {"host": host, "overridable": ov, "cache": ca, "fset": fs, "fdel": fd}})
    for ca, ps, ov, fs, fd in itertools.product((True, False), repeat=5):
        if ps and not ca and not ov:
            pass
        items.append({"kind": "classproperty",
                      "cfg": {"cache": ca, "per_subclass": ps, "overridable": ov, "fset": fs, "fdel": fd,
                              "state_cap": 20000}})
    items.append({"kind": "derived"})
    for fam, ca in itertools.product(("reannotate", "repreparer", "mixin"), (False, True)):
        items.append({"kind": "shared", "cfg": {"family": fam, "cache": ca}})
    for rec in pmap(work, items):
        run.merge(rec)
    run.add(
        configurations=len(items),
        rule=(
            "fixpoint BFS per configuration: 16 (overridable,cache,setter,deleter) combinations x 5 hosts for spec_property "
            "with ops {read, assign 5/6/ill-typed, delete, set underlying 1/2}; 32 classproperty configurations over A>B>C with "
            "reads via class and instance, assign/delete via instances of each class, underlying state change; state = "
            "(reference state, real instance/descriptor fingerprint); non-trivial = a new distinct state; plus one spec_property object "
            "shared by a class and its re-annotating / re-preparing spec subclass or by a plain and a spec user of a mixin: every order "
            "of <= 3 reads through the classes (fresh instances), each judged by the class it is read through"
        ),
    )
    run.assumptions += [
        "custom setter/deleter of the harness write the underlying state (documented use); caches are only dropped by deletion "
        "(invalidation by dependencies is C11)",
        "classproperty assignment/deletion is exercised through instances (the docs state that only getters are invoked on direct class access)",
    ]
