"""
C09 — the generated constructor assigns exactly what the class hierarchy specifies.

E4: every hierarchy of depth <= 3 of the grammar below (spec parents with generated or hand-written
constructor of the documented shape, spec subclass that re-declares / merely re-defaults / adds
attributes, plain subclass re-defaulting, multiple inheritance of two spec parents, init=False
attribute, key with / without default, overflow attribute, default factories) x every subset of
keywords with conforming values, one non-conforming value at a time and one unknown name, x
key passed positionally.  Fresh classes per hierarchy.  Reference `refinit` resolves ownership and
defaults over the declared hierarchy (it never reads library metadata).
"""
from __future__ import annotations

import itertools

from mc import snap
from mc.common import Counter, pmap, violation

PROP = "C09"
ATTRS = ["a", "b", "c"]

PRELUDE = '''
from typing import Any, Dict, List
from spec_classes import spec_class, Attr, MISSING
LOG = {}
def note(k, v=1):
    LOG[k] = LOG.get(k, 0) + v if isinstance(v, int) and not isinstance(v, bool) else v
'''


# ------------------------------------------------------------------------------------------------
# hierarchy grammar
# ------------------------------------------------------------------------------------------------
def hierarchies(tier):
    out = []
    shapes = ["single", "spec_sub", "plain_sub", "spec_sub_plain", "multi", "spec_sub_sub", "spec_plain_spec", "diamond", "siblings"]
    for shape, ctor, key, overflow, noinit, factory in itertools.product(
            shapes, ("generated", "handwritten"), (None, "nodefault", "default"), (False, True), (False, True), (False, True)):
        if shape in ("spec_plain_spec", "diamond", "siblings") and (key or overflow or noinit or factory):
            continue
        if ctor == "handwritten" and (key == "nodefault" or noinit):
            continue  # the documented hand-written shape has no init=False attributes; a key without default is left out
                      # (whether the signature default of the hand-written constructor then counts is not stated)
        if shape == "multi" and ctor == "handwritten" and not (key or overflow or noinit or factory):
            out.append({"shape": shape, "ctor": ctor, "key": key, "overflow": overflow, "noinit": noinit, "factory": factory, "shared": True})
        if shape == "multi" and (key or ctor == "handwritten"):
            continue
        if tier == "quick" and factory and (overflow or noinit or key):
            continue
        out.append({"shape": shape, "ctor": ctor, "key": key, "overflow": overflow, "noinit": noinit, "factory": factory})
        if shape == "multi" and not (overflow or noinit or factory):
            out.append({"shape": shape, "ctor": ctor, "key": key, "overflow": overflow, "noinit": noinit, "factory": factory, "shared": True})
            out.append({"shape": shape, "ctor": ctor, "key": key, "overflow": overflow, "noinit": noinit, "factory": factory, "shared": "factory"})
        if shape in ("single", "spec_sub", "plain_sub") and ctor == "generated" and not (noinit or factory or key):
            out.append({"shape": shape, "ctor": ctor, "key": key, "overflow": overflow, "noinit": noinit, "factory": factory, "inv_star": True})
        if not key and shape in ("single", "spec_sub", "plain_sub", "spec_sub_plain", "spec_sub_sub") and not (overflow or noinit or factory):
            # the owner declares `a` WITHOUT default (and it is not a key): defaults can then only come from subclasses
            out.append({"shape": shape, "ctor": ctor, "key": key, "overflow": overflow, "noinit": noinit, "factory": factory, "a_nodefault": True})
        if shape in ("spec_sub", "spec_sub_plain", "spec_sub_sub"):
            # how the spec subclass treats the inherited attribute `b` (default above: re-declares it) and whether the
            # subclass changes the copy policy (both make the library rebuild the inherited attribute specification)
            for sub_b, sub_dnc in (("redefault", False), ("untouched", False), ("untouched", True), ("redefault", True), ("reannotate", False)):
                if tier == "quick" and (key == "default" or (overflow and sub_dnc)):
                    continue
                if sub_b == "reannotate" and noinit:
                    continue  # (whether a bare re-annotation keeps init=False is not stated)
                out.append({"shape": shape, "ctor": ctor, "key": key, "overflow": overflow, "noinit": noinit, "factory": factory,
                            "sub_b": sub_b, "sub_dnc": sub_dnc})
    return out


def classes_of(h):
    """declarative description: list of classes (bottom-up order of definition).
    each: name, bases, spec(bool), decl {attr: {"ann":bool, "default": int|None|("factory", int), "init": bool}}, ctor, key, overflow, post_init"""
    fac = h["factory"]
    base_a_default = None if (h["key"] == "nodefault" or h.get("a_nodefault")) else 1
    base = {"name": "Base", "bases": [], "spec": True, "ctor": h["ctor"], "key": "a" if h["key"] else None,
            "overflow": "extra" if h["overflow"] else None, "post_init": True,
            "decl": {"a": {"ann": True, "default": base_a_default, "init": True},
                     "b": {"ann": True, "default": ("factory", 2) if fac else 2, "init": not h["noinit"]}}}
    if h.get("inv_star"):
        # `b` is reset whenever ANY other attribute changes - but constructing an instance is not a change of it
        base["decl"]["b"] = {"ann": True, "default": 2, "init": True, "inv": "*"}
    cls = [base]
    sh = h["shape"]
    if sh in ("spec_sub", "spec_sub_plain", "spec_sub_sub"):
        cls.append({"name": "Sub", "bases": ["Base"], "spec": True, "ctor": "generated", "key": None, "overflow": None, "post_init": False,
                    "decl": {"a": {"ann": False, "default": 0, "init": True},           # merely re-defaulted, to a FALSY value (Base stays the owner)
                             "b": {"ann": True, "default": 12, "init": True},           # re-declared: Sub takes ownership
                             "c": {"ann": True, "default": ("factory", 13) if fac else 13, "init": True}}})
        if h.get("a_nodefault"):
            del cls[-1]["decl"]["a"]  # the intermediate spec class leaves `a` alone: only a plain subclass may give it a default
        if h.get("sub_b") == "redefault":
            cls[-1]["decl"]["b"] = {"ann": False, "default": 12, "init": True}  # plain `b = 12`: Base stays the owner, flags are inherited
        elif h.get("sub_b") == "untouched":
            del cls[-1]["decl"]["b"]
        elif h.get("sub_b") == "reannotate":
            cls[-1]["decl"]["b"] = {"ann": True, "default": None, "init": True}  # bare `b: int`: the nearest default along the MRO is still Base's
        cls[-1]["do_not_copy"] = bool(h.get("sub_dnc"))
    if sh == "plain_sub":
        cls.append({"name": "Plain", "bases": ["Base"], "spec": False, "decl": {"b": {"ann": False, "default": 22, "init": True}}})
    if sh == "plain_sub":
        cls[-1]["post_init_override"] = True
    if sh == "spec_sub_plain":
        cls.append({"name": "Plain", "bases": ["Sub"], "spec": False, "decl": {"c": {"ann": False, "default": 23, "init": True},
                                                                               "a": {"ann": False, "default": 21, "init": True}}})
    if sh == "spec_sub_sub":
        cls.append({"name": "SubSub", "bases": ["Sub"], "spec": True, "ctor": "generated", "key": None, "overflow": None, "post_init": False,
                    "decl": {"c": {"ann": False, "default": 33, "init": True}}})
    if sh == "spec_plain_spec":
        cls.append({"name": "Plain", "bases": ["Base"], "spec": False, "decl": {"a": {"ann": False, "default": 0, "init": True}}})
        cls.append({"name": "Leaf3", "bases": ["Plain"], "spec": True, "ctor": "generated", "key": None, "overflow": None, "post_init": False,
                    "decl": {"c": {"ann": True, "default": 13, "init": True}}})
    if sh == "siblings":
        # two spec children of one parent that DISAGREE about who owns `b`: whatever is remembered about the parent while
        # one of them is constructed must not be used for the other
        cls.append({"name": "Inherits", "bases": ["Base"], "spec": True, "ctor": "generated", "key": None, "overflow": None, "post_init": False,
                    "decl": {"c": {"ann": True, "default": 13, "init": True}}})
        cls.append({"name": "Redeclares", "bases": ["Base"], "spec": True, "ctor": "generated", "key": None, "overflow": None, "post_init": False,
                    "decl": {"b": {"ann": True, "default": 12, "init": True}, "c": {"ann": True, "default": 14, "init": True}}})
    if sh == "diamond":
        cls.append({"name": "Left", "bases": ["Base"], "spec": True, "ctor": "generated", "key": None, "overflow": None, "post_init": False,
                    "decl": {"c": {"ann": True, "default": 13, "init": True}}})
        cls.append({"name": "Right", "bases": ["Base"], "spec": True, "ctor": "generated", "key": None, "overflow": None, "post_init": False,
                    "decl": {"a": {"ann": False, "default": 0, "init": True}}})
        cls.append({"name": "Bottom", "bases": ["Left", "Right"], "spec": True, "ctor": "generated", "key": None, "overflow": None, "post_init": False,
                    "decl": {}})
    if sh == "multi":
        base["decl"].pop("b")
        cls.append({"name": "Other", "bases": [], "spec": True, "ctor": "generated", "key": None, "overflow": None, "post_init": False,
                    "decl": {"b": {"ann": True, "default": ("factory", 2) if fac else 2, "init": not h["noinit"]}}})
        if h.get("shared"):
            # both parents declare `a`; the first base in the MRO (Base) wins
            cls[-1]["decl"]["a"] = {"ann": True, "default": 5, "init": True}
            if h["shared"] == "factory":
                base["decl"]["a"] = {"ann": True, "default": ("factory", 1), "init": True}
        cls.append({"name": "Multi", "bases": ["Base", "Other"], "spec": True, "ctor": "generated", "key": None, "overflow": None, "post_init": False,
                    "decl": {"c": {"ann": True, "default": 13, "init": True}}})
    return cls


def source_of(h):
    lines = []
    for k in classes_of(h):
        if k["spec"]:
            args = []
            if k.get("key"):
                args.append(f"key={k['key']!r}")
            if k.get("overflow"):
                args.append(f"init_overflow_attr={k['overflow']!r}")
            if k.get("do_not_copy"):
                args.append("do_not_copy=True")
            lines.append("@spec_class(" + ", ".join(args) + ")" if args else "@spec_class")
        lines.append(f"class {k['name']}({', '.join(k['bases'])}):" if k["bases"] else f"class {k['name']}:")
        body = []
        for n, d in k["decl"].items():
            dv = d["default"]
            if isinstance(dv, tuple):
                rhs = f"Attr(default_factory=lambda: {dv[1]}" + ("" if d["init"] else ", init=False") + ")"
            elif not d["init"]:
                rhs = f"Attr(default={dv}, init=False)"
            elif d.get("inv"):
                rhs = f"Attr(default={dv}, invalidated_by={d['inv']!r})"
            else:
                rhs = None if dv is None else str(dv)
            if d["ann"]:
                body.append(f"    {n}: int" + (f" = {rhs}" if rhs is not None else ""))
            else:
                body.append(f"    {n} = {rhs}")
        if k.get("ctor") == "handwritten":
            owned = [n for n, d in k["decl"].items() if d["ann"]]
            sig = ", ".join(f"{n}=10" for n in owned)
            body.append(f"    def __init__(self, {sig}):")
            body.append(f"        note('hand_calls')")
            for n in owned:
                body.append(f"        self.{n} = {n} + 1")
        if k.get("post_init"):
            body.append("    def __post_init__(self):")
            body.append("        note('post_init_calls')")
            body.append("        note('post_init_saw', sorted(k for k in vars(self) if not k.startswith('_')))")
        if k.get("post_init_override"):
            # a plain subclass overriding the hook: ITS __post_init__ is the instance's __post_init__
            body.append("    def __post_init__(self):")
            body.append("        note('override_calls')")
            body.append("        super().__post_init__()")
        lines += body or ["    pass"]
        lines.append("")
    return "\n".join(lines)


# ------------------------------------------------------------------------------------------------
# refinit
# ------------------------------------------------------------------------------------------------
def mro(classes, name):
    """C3 is overkill here: shapes are linear except Multi(Base, Other)"""
    by = {k["name"]: k for k in classes}
    out = []

    def lin(n):
        k = by[n]
        res = [n]
        for b in k["bases"]:
            for x in lin(b):
                if x not in res:
                    res.append(x)
        return res

    out = lin(name)
    if name == "Bottom":
        out = ["Bottom", "Left", "Right", "Base"]  # C3 linearisation of the diamond
    return out


def refinit(h, final, kwargs, positional_key):
    """-> ("ok", {attr: value}, overflow dict|None, hand_calls, post_init_expected) | ("raise", {families})"""
    classes = classes_of(h)
    by = {k["name"]: k for k in classes}
    order = mro(classes, final)
    spec_final = next(n for n in order if by[n]["spec"])  # class whose metadata the instance uses
    # ownership: walk definition order (parents first); annotated declaration in a spec class takes ownership
    owner, init_flag = {}, {}
    for n in reversed(mro(classes, spec_final)):
        k = by[n]
        if not k["spec"]:
            continue
        for a, d in k["decl"].items():
            if d["ann"] or isinstance(d["default"], tuple) or not d["init"]:
                owner[a] = n
                init_flag[a] = d["init"]
    key = next((by[n].get("key") for n in mro(classes, spec_final) if by[n].get("key")), None)
    overflow = next((by[n].get("overflow") for n in mro(classes, spec_final) if by[n].get("overflow")), None)

    def nearest_default(a):
        for n in order:
            d = by[n]["decl"].get(a)
            # (a bare annotation declares no default of its own: the nearest default further up the MRO still applies)
            if d is not None and d["default"] is not None:
                dv = d["default"]
                return dv[1] if isinstance(dv, tuple) else dv
        return None

    kw = dict(kwargs)
    unchanged = {k for k, v in kw.items() if v == "<UNCHANGED>"}
    if positional_key is not None:
        if not key:
            return ("raise", {"TypeError"})
        if key in kw:
            return ("raise", {"TypeError"})
        kw[key] = positional_key
    known = {a for a in owner if init_flag[a]}
    unknown = {k: v for k, v in kw.items() if k not in known}
    if unchanged & set(unknown):
        return None  # the sentinel for a name that is not an init attribute: not judged
    if key in unchanged and nearest_default(key) is None:
        return None  # a required key 'given' as the sentinel: whether that satisfies the requirement is not stated
    for k in unchanged:
        del kw[k]  # ... and otherwise exactly as if the keyword had not been given
    if unknown and not overflow:
        return ("raise", {"TypeError"})
    if key and key not in kw and nearest_default(key) is None:
        return ("raise", {"TypeError"})
    state = {}
    for a in owner:
        if not init_flag[a]:
            # never a constructor keyword, but (as for dataclasses) the instance still gets its own default
            d = nearest_default(a)
            if d is not None and by[owner[a]].get("ctor") != "handwritten":
                state[a] = d
            continue
        hand = by[owner[a]].get("ctor") == "handwritten"
        if a in kw:
            v = kw[a]
            if not isinstance(v, int):
                return ("raise", {"TypeError"})
            state[a] = v + 1 if hand else v
        else:
            d = nearest_default(a)
            if hand:
                state[a] = (d if d is not None else 10) + 1
            elif d is not None:
                state[a] = d
    hand_calls = sum(1 for n in mro(classes, spec_final) if by[n].get("ctor") == "handwritten")
    ov = dict(unknown) if overflow else None
    return ("ok", state, ov, hand_calls, sorted(list(state) + ([overflow] if overflow else [])))


# ------------------------------------------------------------------------------------------------
def keyword_sets(h):
    names = ATTRS if h["shape"] not in ("single", "plain_sub") else ["a", "b"]
    if h["shape"] == "diamond":
        names = ["a", "b", "c"]
    out = []
    for r in range(len(names) + 1):
        for combo in itertools.combinations(names, r):
            out.append({n: 50 + i for i, n in enumerate(combo)})
    for n in names:
        out.append({n: 0})  # an explicit falsy value is a value
    out.append({n: 0 for n in names})
    for n in names:
        out.append({n: "bad"})
        out.append(dict({m: 60 for m in names if m != n}, **{n: "bad"}))
    for n in names:
        out.append({n: "<UNCHANGED>"})  # the 'leave it as it is' sentinel: at construction time that is the default
    out.append({"zzz": 1})
    out.append({"zzz": 1, "a": 70})
    if h["overflow"]:
        # the overflow attribute's own name is not an init keyword either: it is one more unknown keyword
        out.append({"extra": 5})
        out.append({"zzz": 1, "extra": 6})
    out.append({"c": 5} if "c" not in names else {"_private": 1})
    return out


def run_one(h, final, kwargs, positional_key, others_first=False):
    ns = {"__name__": "verif_c09"}
    exec(compile(PRELUDE, "<c09-prelude>", "exec", dont_inherit=True), ns)
    exec(compile(source_of(h), "<c09-hierarchy>", "exec", dont_inherit=True), ns)
    cls = ns[final]
    if others_first:
        # every OTHER class of the hierarchy is bootstrapped and used first (most-derived first): what a subclass or
        # a sibling does to the attribute specifications it inherits must not leak into this class
        for k in reversed(classes_of(h)):
            if k["name"] != final:
                try:
                    ns[k["name"]].__spec_class__
                    ns[k["name"]](**({"a": 3} if k.get("key") or h.get("a_nodefault") else {}))
                except Exception:
                    pass
    ns["LOG"].clear()
    import spec_classes

    kwargs = {k: (spec_classes.UNCHANGED if v == "<UNCHANGED>" else v) for k, v in kwargs.items()}
    try:
        inst = cls(positional_key, **kwargs) if positional_key is not None else cls(**kwargs)
    except Exception as e:
        return ("raise", e, None), ns
    return ("ok", inst, dict(ns["LOG"])), ns


def fam(e):
    for b in (TypeError, ValueError, AttributeError):
        if isinstance(e, b):
            return b.__name__
    return type(e).__name__


def judge(h, final, kwargs, positional_key, others_first=False):
    exp = refinit(h, final, kwargs, positional_key)
    got, ns = run_one(h, final, kwargs, positional_key, others_first)
    case = {"h": h, "final": final, "kwargs": kwargs, "positional_key": positional_key, "others_first": others_first}
    sig = dict(shape=h["shape"], ctor=h["ctor"], key=h["key"], overflow=h["overflow"], noinit=h["noinit"], factory=h["factory"], final=final,
               sub_b=h.get("sub_b", "redeclare"), sub_dnc=bool(h.get("sub_dnc")), others_first=others_first,
               shared=bool(h.get("shared")), a_nodefault=bool(h.get("a_nodefault")), inv_star=bool(h.get("inv_star")),
               kw=("bad" if any(v == "bad" for v in kwargs.values()) else "unknown" if any(k not in ATTRS for k in kwargs) else "conf"),
               positional=positional_key is not None)
    out = []
    if exp is None:
        return out
    if exp[0] == "raise":
        if got[0] != "raise":
            out.append(violation(PROP, dict(sig, kind="should_raise"), {"expected": sorted(exp[1]), "got": repr(got[1])[:150]}, case))
        elif fam(got[1]) not in exp[1] and not (fam(got[1]) == "ValueError" and "TypeError" in exp[1] and sig["kw"] == "bad"):
            out.append(violation(PROP, dict(sig, kind="wrong_exception", got=fam(got[1])), {"raised": repr(got[1])[:200]}, case))
        return out
    if got[0] == "raise":
        out.append(violation(PROP, dict(sig, kind="unexpected_raise", got=fam(got[1])), {"raised": repr(got[1])[:200], "expected_state": exp[1]}, case))
        return out
    _, state, ov, hand_calls, saw = exp
    inst, log = got[1], got[2]
    have = {}
    for k in ATTRS:  # what reading the attribute gives (the statement is about values, not about where they are stored)
        try:
            have[k] = getattr(inst, k)
        except AttributeError:
            pass
    if have != state:
        diff = sorted(k for k in set(have) | set(state) if have.get(k, "<missing>") != state.get(k, "<missing>"))
        out.append(violation(PROP, dict(sig, kind="wrong_attribute_values", attr=diff[0]),
                             {"expected": state, "got": have, "source": source_of(h)[:600]}, case))
    if ov is not None:
        g = vars(inst).get("extra", "<missing>")
        if g != ov:
            out.append(violation(PROP, dict(sig, kind="wrong_overflow"), {"expected": ov, "got": repr(g)[:100]}, case))
    if log.get("post_init_calls", 0) != 1:
        out.append(violation(PROP, dict(sig, kind="post_init_count", got=log.get("post_init_calls", 0)), {}, case))
    elif [k for k in log.get("post_init_saw", []) if k in ATTRS or k == "extra"] != saw:
        out.append(violation(PROP, dict(sig, kind="post_init_before_attributes_set"),
                             {"saw": log.get("post_init_saw"), "expected": saw}, case))
    want_override = 1 if any(k.get("post_init_override") and k["name"] in mro(classes_of(h), final) for k in classes_of(h)) else 0
    if log.get("override_calls", 0) != want_override:
        out.append(violation(PROP, dict(sig, kind="post_init_override_calls", got=log.get("override_calls", 0), expected=want_override), {}, case))
    if log.get("hand_calls", 0) != hand_calls:
        out.append(violation(PROP, dict(sig, kind="handwritten_ctor_calls", got=log.get("hand_calls", 0), expected=hand_calls), {}, case))
    return out


def finals(h):
    f = {"single": ["Base"], "spec_sub": ["Base", "Sub"], "plain_sub": ["Plain"], "spec_sub_plain": ["Plain", "Sub"], "multi": ["Multi"],
         "spec_sub_sub": ["SubSub"], "spec_plain_spec": ["Leaf3", "Plain"], "diamond": ["Bottom", "Right"], "siblings": ["Inherits", "Redeclares", "Base"]}[h["shape"]]
    if h["ctor"] == "handwritten":
        # a class whose own __init__ is user-written does not use the generated constructor at all; the
        # hand-written constructor matters as a PARENT constructor only
        f = [x for x in f if x not in ("Base",) and not (x == "Plain" and h["shape"] in ("plain_sub", "spec_plain_spec"))]
    return f


def work(chunk):
    C = Counter()
    for h in chunk:
        C.inc("states")
        for final in finals(h):
            for kw in keyword_sets(h):
                variants = [(kw, None)]
                if h["key"]:
                    variants.append(({k: v for k, v in kw.items() if k != "a"}, kw.get("a", 77)))
                for kwargs, pos, of in [(k, p, o) for k, p in variants for o in (False, True)]:
                    if of and len(classes_of(h)) == 1:
                        continue
                    out = judge(h, final, kwargs, pos, of)
                    C.inc("transitions")
                    C.inc("evaluations")
                    for v in out:
                        C.viol(v)
                    if not out:
                        C.inc("traces_validated_against_impl")
                        C.nontrivial((repr(h), final, repr(kwargs), pos, of))
    C.sample({"hierarchy": chunk[0], "source": source_of(chunk[0])[:500]})
    return C.rec


def run_case(case):
    return judge(case["h"], case["final"], case["kwargs"], case["positional_key"], case.get("others_first", False))


def main(run):
    hs = hierarchies(run.tier)
    chunks = [hs[i:i + 6] for i in range(0, len(hs), 6)]
    for rec in pmap(work, chunks):
        run.merge(rec)
    run.add(hierarchies=len(hs), rule=(
        "every hierarchy of the grammar (6 shapes x generated / hand-written base constructor x key none / without default / with default x "
        "overflow attribute x init=False attribute x default factories, pruned of undocumented combinations) x every final class x every "
        "keyword set (all subsets with conforming values, each attribute non-conforming alone and with all others conforming, unknown names) "
        "x key passed positionally; states = hierarchies, transitions = constructions"
    ))
    run.assumptions += [
        "hand-written parent constructors have the documented shape (keyword defaults, self.x = x + 1); keys / init=False are not combined with them",
        "passing the overflow attribute's own name as a keyword is undocumented and not exercised",
        "attributes re-declared by a subclass always carry a default (a hand-written parent constructor would otherwise leak its own signature default)",
    ]
