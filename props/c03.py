"""
C03 — managed attributes always satisfy their declared type on every mutation route.

E1 over the class family with the widest alphabet and the position-aimed non-conforming pool
(whole value, element, dict key, dict value, nested attribute; preparers / item preparers that
return conforming or non-conforming values).  Oracle (state invariant): after every operation
every managed attribute of every live instance (receiver, result, peers) is missing or conforms
to its annotation according to the independent reference `mc.ref.reftype`.  A call whose aimed
argument is non-conforming and that raises must raise TypeError or ValueError.
"""
from __future__ import annotations

from mc import explore, grammar as G, snap
from mc import spec_ops as S
from mc.common import pmap
from mc.ref import reftype

PROP = "C03"
BAD_SHAPES = ("with:bad", "set:bad", "new:bad", "update:bad", "update:one_bad", "with:kw_bad", "update:kw_bad",
              "with_item:append:bad", "with_item:add:bad", "with_item:bad_key", "with_item:bad_value",
              "update:pair_second_bad")


def check_instance(env, rec, inst):
    """-> list of (attr, kind, where, value repr)"""
    bad = []
    if not isinstance(inst, env.cls):
        return bad
    d = vars(inst)
    for a in rec["attrs"]:
        n = G.attr_name(a)
        if n not in d:
            continue
        ok, where = reftype.conforms(a["kind"], d[n], env)
        if not ok:
            bad.append((n, a["kind"], where, repr(d[n])[:80]))
    return bad


class Oracle:
    faults = ()

    def __init__(self, task):
        self.task = task
        self.quick = task.get("tier") == "quick"

    def applies(self, rec):
        return True

    def profile(self, rec):
        P = {"raising": False, "invalid": True, "ctor": True}
        if self.quick or len(rec["attrs"]) > 1:
            P["small"] = True
        return P

    def checked(self, op):
        return True

    def pre(self, ctx):
        ctx.store["pre_done"] = True

    def post(self, ctx, out):
        v = []
        insts = list(ctx.world.objs)
        if out.result is not None and not any(out.result is i for i in insts):
            insts.append(out.result)
        for inst in insts:
            for n, kind, where, r in check_instance(ctx.env, ctx.rec, inst):
                v.append(explore.violation(PROP, ctx.sig("nonconforming_value_stored", attr=kind, where=where.split(":")[0]),
                                           {"attr": n, "where": where, "value": r, "outcome": out.brief()}, ctx.case()))
        shape = ctx.op.get("shape", "")
        if out.raised and shape in BAD_SHAPES and out.family() not in ("TypeError", "ValueError"):
            v.append(explore.violation(PROP, ctx.sig("wrong_exception_for_nonconforming", got=out.family()),
                                       {"outcome": out.brief()}, ctx.case()))
        return v


def make_oracle(task):
    return Oracle(task)


def run_case(case):
    return explore.replay_case(case, "props.c03")


def main(run):
    from props.c01 import tasks_for

    tasks = tasks_for(run, "props.c03", PROP)
    for rec in pmap(explore.explore_class, tasks):
        run.merge(rec)
    run.add(rule=(
        "BFS over histories of each generated class with the widest alphabet incl. non-conforming values aimed at every "
        "position; after every transition every managed attribute of every live instance must conform per the reference "
        "checker; non-trivial = raises or changes the state"
    ))
    run.assumptions += [
        "direct mutation of a contained list/dict by the user is out of scope (as the property states)",
        "normalisation into a conforming value (tuple -> list, dict -> nested spec, key -> keyed item) is accepted",
    ]
