"""
C03 — managed attributes always satisfy their declared type on every mutation route.

E1 over the class family with the widest alphabet and the position-aimed non-conforming pool
(whole value, element, dict key, dict value, nested attribute; preparers / item preparers that
return conforming or non-conforming values).  Oracle (state invariant): after every operation
every managed attribute of every live instance (receiver, result, peers) is missing or conforms
to its annotation according to the independent reference `mc.ref.reftype`.  A call whose aimed
argument is non-conforming and that raises must raise TypeError or ValueError.
"""
from __future__ import annotations

from mc import explore, grammar as G, snap
from mc import spec_ops as S
from mc.common import pmap
from mc.ref import reftype

PROP = "C03"
BAD_SHAPES = ("with:bad", "set:bad", "new:bad", "update:bad", "update:one_bad", "with:kw_bad", "update:kw_bad",
              "with_item:append:bad", "with_item:add:bad", "with_item:bad_key", "with_item:bad_value",
              "update:pair_second_bad")


def check_instance(env, rec, inst):
    """-> list of (attr, kind, where, value repr)"""
    bad = []
    if not isinstance(inst, env.cls):
        return bad
    d = vars(inst)
    for a in rec["attrs"]:
        n = G.attr_name(a)
        store = f"_{n}_value" if a.get("prop") == "setter" else n  # (a property with a setter keeps the value under a private name)
        if store not in d:
            continue
        ok, where = reftype.conforms(a["kind"], d[store], env)
        if not ok:
            bad.append((n, a["kind"], where, repr(d[store])[:80]))
    return bad


class Oracle:
    faults = ()

    def __init__(self, task):
        self.task = task
        self.quick = task.get("tier") == "quick"

    def applies(self, rec):
        return True

    def profile(self, rec):
        P = {"raising": False, "invalid": True, "ctor": True}
        if self.quick or len(rec["attrs"]) > 1:
            P["small"] = True
        return P

    def checked(self, op):
        return True

    def pre(self, ctx):
        ctx.store["pre_done"] = True

    def post(self, ctx, out):
        v = []
        insts = list(ctx.world.objs)
        if out.result is not None and not any(out.result is i for i in insts):
            insts.append(out.result)
        for inst in insts:
            for n, kind, where, r in check_instance(ctx.env, ctx.rec, inst):
                v.append(explore.violation(PROP, ctx.sig("nonconforming_value_stored", attr=kind, where=where.split(":")[0]),
                                           {"attr": n, "where": where, "value": r, "outcome": out.brief()}, ctx.case()))
        shape = ctx.op.get("shape", "")
        if out.raised and shape in BAD_SHAPES and out.family() not in ("TypeError", "ValueError"):
            v.append(explore.violation(PROP, ctx.sig("wrong_exception_for_nonconforming", got=out.family()),
                                       {"outcome": out.brief()}, ctx.case()))
        return v


def make_oracle(task):
    return Oracle(task)


# ------------------------------------------------------------------------------------------------
# two classes of the SAME NAME (e.g. defined in two modules) with different element / key types: what the library worked
# out for one of them must not be used for the other
# ------------------------------------------------------------------------------------------------
TWIN_VARIANTS = {
    # attr source, conforming call, non-conforming call (must raise TypeError / ValueError and store nothing)
    "str_keys": ("limits: Dict[str, int] = {}", ("with_limit", ("cpu", 4)), ("with_limit", (2, 4)), "limits"),
    "int_keys": ("limits: Dict[int, int] = {}", ("with_limit", (2, 4)), ("with_limit", ("cpu", 4)), "limits"),
    "str_items": ("names: List[str] = []", ("with_name", ("a",)), ("with_name", (1,)), "names"),
    "int_items": ("names: List[int] = []", ("with_name", (1,)), ("with_name", ("a",)), "names"),
    "str_set": ("tags: Set[str] = set()", ("with_tag", ("a",)), ("with_tag", (1,)), "tags"),
    "int_set": ("tags: Set[int] = set()", ("with_tag", (1,)), ("with_tag", ("a",)), "tags"),
}
TWIN_PAIRS = [("str_keys", "int_keys"), ("int_keys", "str_keys"), ("str_items", "int_items"), ("int_items", "str_items"),
              ("str_set", "int_set"), ("int_set", "str_set")]


def same_name_case(first, second, first_uses):
    def make(variant):
        ns = {"__name__": "verif_c03_twin"}
        exec(compile(G.PRELUDE, "<c03-prelude>", "exec", dont_inherit=True), ns)
        exec(compile(f"@spec_class\nclass Config:\n    {TWIN_VARIANTS[variant][0]}\n", "<c03-twin>", "exec", dont_inherit=True), ns)
        return ns["Config"]

    probs = []
    A, B = make(first), make(second)
    for u in first_uses:
        m, args = TWIN_VARIANTS[first][1] if u == "good" else TWIN_VARIANTS[first][2]
        try:
            getattr(A(), m)(*args, _inplace=(u == "good_inplace"))
        except Exception:
            pass
    for inplace in (False, True):
        attr = TWIN_VARIANTS[second][3]
        m, args = TWIN_VARIANTS[second][1]
        try:
            r = getattr(B(), m)(*args, _inplace=inplace)
            if len(getattr(r, attr)) != 1:
                probs.append(f"conforming {m}{args} on the second class stored {getattr(r, attr)!r}")
        except Exception as e:
            probs.append(f"conforming {m}{args} on the second class raised {type(e).__name__}")
        m, args = TWIN_VARIANTS[second][2]
        b = B()
        try:
            r = getattr(b, m)(*args, _inplace=inplace)
            probs.append(f"non-conforming {m}{args} on the second class was stored: {getattr(r, attr)!r}")
        except (TypeError, ValueError):
            if len(getattr(b, attr)):
                probs.append(f"refused {m}{args} left {getattr(b, attr)!r} behind")
        except Exception as e:
            probs.append(f"non-conforming {m}{args} raised {type(e).__name__}")
    return probs


def same_name_worker(task):
    from mc.common import Counter, violation

    C = Counter()
    for first, second in TWIN_PAIRS:
        for uses in ((), ("good",), ("bad",), ("good", "bad"), ("good_inplace",)):
            probs = same_name_case(first, second, uses)
            C.inc("states")
            C.inc("transitions", len(uses) + 4)
            C.inc("evaluations")
            case = {"part": "same_name", "first": first, "second": second, "uses": list(uses)}
            if probs:
                C.viol(violation(PROP, {"part": "same_name", "kind": "type_of_a_same_named_class_applied", "first": first, "second": second},
                                 {"problems": probs[:3]}, case))
            else:
                C.inc("traces_validated_against_impl")
                C.nontrivial(("same_name", first, second, uses))
    C.sample({"part": "same_name", "pairs": TWIN_PAIRS})
    return C.rec


# ------------------------------------------------------------------------------------------------
# a spec subclass RE-TYPES an inherited collection (bare re-annotation): the subclass's own element type applies on every route,
# whatever was used first and however the classes were bootstrapped
# ------------------------------------------------------------------------------------------------
RETYPE_SRC = """
@spec_class{deco}
class Basket:
    values: List[int] = []
    table: Dict[str, int] = {{}}

@spec_class{deco}
class NamedBasket(Basket):
    values: List[str]
    table: Dict[str, str]
"""
RETYPE_FIRST_USES = {
    "none": lambda ns: None,
    "base_element_helper": lambda ns: (ns["Basket"]().with_value(1), ns["Basket"]().with_table_item("k", 1)),
    "base_instance": lambda ns: ns["Basket"](values=[1]),
    "sub_metadata": lambda ns: ns["NamedBasket"].__spec_class__,
}
RETYPE_PROBES = [
    # (label, call, conforming?)
    ("with_value(5)", lambda o, ip: o.with_value(5, _inplace=ip), False),
    ("with_value('a')", lambda o, ip: o.with_value("a", _inplace=ip), True),
    ("with_values([5])", lambda o, ip: o.with_values([5], _inplace=ip), False),
    ("update_value(0, 5)", lambda o, ip: o.with_value("a", _inplace=ip).update_value(0, 5, _inplace=ip), False),
    ("transform_value(0, len)", lambda o, ip: o.with_value("a", _inplace=ip).transform_value(0, len, _inplace=ip), False),
    ("with_table_item('k', 5)", lambda o, ip: o.with_table_item("k", 5, _inplace=ip), False),
    ("with_table_item('k', 'v')", lambda o, ip: o.with_table_item("k", "v", _inplace=ip), True),
    ("constructor values=[5]", lambda o, ip: type(o)(values=[5]), False),
]


def retype_case(eager, first_use):
    import typing

    from spec_classes import spec_class

    ns = {"spec_class": spec_class, "List": typing.List, "Dict": typing.Dict}
    exec(compile(RETYPE_SRC.format(deco="(bootstrap=True)" if eager else ""), "<c03-retype>", "exec", dont_inherit=True), ns)
    try:
        RETYPE_FIRST_USES[first_use](ns)
    except Exception:
        pass
    probs = []
    for label, call, conforming in RETYPE_PROBES:
        for ip in (False, True):
            o = ns["NamedBasket"]()
            try:
                r = call(o, ip)
            except (TypeError, ValueError):
                if conforming:
                    probs.append(f"conforming {label} refused (_inplace={ip})")
                continue
            except Exception as e:
                probs.append(f"{label} raised {type(e).__name__} (_inplace={ip})")
                continue
            bad = [v for v in getattr(r, "values", []) if not isinstance(v, str)] + [v for v in getattr(r, "table", {}).values() if not isinstance(v, str)]
            if bad:
                probs.append(f"{label} stored {bad!r} in a collection of str (_inplace={ip})")
    return probs


def retype_worker(task):
    from mc.common import Counter, violation

    C = Counter()
    for eager in (False, True):
        for first_use in RETYPE_FIRST_USES:
            probs = retype_case(eager, first_use)
            C.inc("states")
            C.inc("transitions", 2 * len(RETYPE_PROBES))
            C.inc("evaluations")
            case = {"part": "retype", "eager": eager, "first_use": first_use}
            if probs:
                C.viol(violation(PROP, {"part": "retype", "kind": "element_type_of_the_parent_applied", "eager": eager, "first_use": first_use},
                                 {"problems": probs[:3]}, case))
            else:
                C.inc("traces_validated_against_impl")
                C.nontrivial(("retype", eager, first_use))
    C.sample({"part": "retype", "first_uses": list(RETYPE_FIRST_USES), "probes": [p[0] for p in RETYPE_PROBES]})
    return C.rec


def dispatch(task):
    if task.get("part") == "retype":
        return retype_worker(task)
    return same_name_worker(task) if task.get("part") == "same_name" else explore.explore_class(task)


def run_case(case):
    if case.get("part") == "retype":
        from mc.common import violation

        probs = retype_case(case["eager"], case["first_use"])
        return [violation(PROP, {"part": "retype", "kind": "element_type_of_the_parent_applied", "eager": case["eager"], "first_use": case["first_use"]},
                          {"problems": probs[:3]}, case)] if probs else []
    if case.get("part") == "same_name":
        from mc.common import violation

        probs = same_name_case(case["first"], case["second"], tuple(case["uses"]))
        return [violation(PROP, {"part": "same_name", "kind": "type_of_a_same_named_class_applied", "first": case["first"], "second": case["second"]},
                          {"problems": probs[:3]}, case)] if probs else []
    return explore.replay_case(case, "props.c03")


def main(run):
    from props.c01 import tasks_for

    tasks = tasks_for(run, "props.c03", PROP)
    tasks.append({"part": "same_name"})
    tasks.append({"part": "retype"})
    for rec in pmap(dispatch, tasks):
        run.merge(rec)
    run.add(rule=(
        "BFS over histories of each generated class with the widest alphabet incl. non-conforming values aimed at every "
        "position; after every transition every managed attribute of every live instance must conform per the reference "
        "checker; non-trivial = raises or changes the state"
    ))
    run.assumptions += [
        "direct mutation of a contained list/dict by the user is out of scope (as the property states)",
        "normalisation into a conforming value (tuple -> list, dict -> nested spec, key -> keyed item) is accepted",
    ]
