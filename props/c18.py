"""
C18 — Alias mirrors its target until overridden; passthrough writes reach the target.

Engine E1 in fixpoint mode over every alias configuration (passthrough x transform x fallback x
path shape x host kind x Alias/DeprecatedAlias).  Reference `refalias`: (target value | missing,
local override | none).  Every operation's value / exception family is compared, the target is
checked through its own path after every step, and DeprecatedAlias must additionally warn on
every alias access (and only then) with the configured warning class.
"""
from __future__ import annotations

import copy
import itertools
import warnings
from typing import Any, Dict  # noqa: used by string annotations of the generated hosts

from mc import snap
from mc.common import Counter, pmap, violation

PROP = "C18"
PATHS = {"plain": "x", "dotted": "child.x", "item": 'd["k"]', "mixed": 'child.d["k"]',
         "keydot": 'e["k"].x', "sqdot": "d['k.k']"}
ATTR_ENDED = ("plain", "dotted", "keydot")  # the last step is an attribute (managed on spec hosts)
FALLBACK = [[0]]  # nested: a shallow copy of the fallback still shares the inner list


class MyWarning(UserWarning):
    pass


def plus100(v):
    if isinstance(v, list):
        return v + ["transformed"]  # (targets are never lists: only a FALLBACK wrongly sent through the transform would show this)
    return v + 100 if isinstance(v, int) else v


def make_host(cfg):
    from spec_classes import Alias, Attr, DeprecatedAlias, spec_class  # noqa

    kw = {"passthrough": cfg["passthrough"]}
    if cfg["transform"]:
        kw["transform"] = plus100
    if cfg["fallback"]:
        kw["fallback"] = copy.deepcopy(FALLBACK)
    path = PATHS[cfg["path"]]
    if cfg["deprecated"]:
        alias = DeprecatedAlias(path, warning_cls=MyWarning, **kw)
    else:
        alias = Alias(path, **kw)
    if cfg["host"] == "plain":

        class Child:
            def __init__(self):
                self.x = 1
                self.d = {"k": 1}

        class Host:
            a = alias

            def __init__(self):
                self.x = 1
                self.d = {"k": 1, "k.k": 1}
                self.child = Child()
                self.e = {"k": Child()}

        return derive(cfg, Host)
    @spec_class
    class SChild:
        x: int = 1
        d: Dict[str, int] = {"k": 1}

    SChild()
    ann_a = Any if (cfg["fallback"]) else int  # a list fallback must be admissible for the alias' own type

    from spec_classes import spec_property

    def px(self):
        return getattr(self, "x", -1) * 2

    ns = {
        # a cached value derived from the plain-path target: a write FORWARDED by a passthrough alias is a write of the target
        "px": spec_property(px, cache=True, invalidated_by=["x"]),
        "__annotations__": {"x": int, "d": Dict[str, int], "child": SChild, "e": Dict[str, SChild], "a": ann_a},
        "x": 1,
        "d": {"k": 1, "k.k": 1},
        "child": SChild(),
        "e": {"k": SChild()},
        "a": alias,
    }
    Host = spec_class(type("SHost", (), ns))
    return derive(cfg, Host)


def derive(cfg, Host):
    """the alias is declared by Host; the instances that are used may be of a subclass (decorated or not)"""
    from spec_classes import spec_class

    if cfg.get("derive") == "spec_sub":
        return spec_class(type(Host.__name__ + "Sub", (Host,), {"__annotations__": {"extra": int}, "extra": 0}))
    if cfg.get("derive") == "plain_sub":
        return type(Host.__name__ + "Plain", (Host,), {})
    return Host


# ------------------------------------------------------------------------------------------------
# target access through its own path (never through the alias)
# ------------------------------------------------------------------------------------------------
MISSING_T = "<missing>"


def _holder(obj, path):
    """-> (container, key, is_item) of the last step of the path"""
    if path == "plain":
        return obj, "x", False
    if path == "dotted":
        return obj.child, "x", False
    if path == "item":
        return obj.d, "k", True
    if path == "mixed":
        return obj.child.d, "k", True
    if path == "keydot":
        return obj.e["k"], "x", False
    if path == "sqdot":
        return obj.d, "k.k", True
    raise ValueError(path)


def target_get(obj, path):
    try:
        h, k, item = _holder(obj, path)
        return h[k] if item else getattr(h, k)
    except (AttributeError, KeyError, TypeError):  # (TypeError: the parent of the last step is None)
        return MISSING_T


def target_set(obj, path, v):
    h, k, item = _holder(obj, path)
    if item:
        h[k] = v
    else:
        setattr(h, k, v)


def target_del(obj, path):
    h, k, item = _holder(obj, path)
    if item:
        del h[k]
    else:
        delattr(h, k)


class RefAlias:
    NONE = "<none>"

    def __init__(self, cfg):
        self.cfg = cfg
        self.target = 1
        self.override = self.NONE

    def key(self):
        return (repr(self.target), repr(self.override), getattr(self, "parent_gone", False))

    def spec(self):
        return self.cfg["host"] == "spec"

    def target_resets_to(self):
        # what `del target` leaves: spec hosts restore the class default for managed attributes
        if self.spec() and self.cfg["path"] in ATTR_ENDED:
            return 1
        return MISSING_T

    def apply(self, op):
        c = self.cfg
        n = op[0]
        if n == "null_parent":
            # whatever holds the last step of the path is replaced by None: from then on there is no target to mirror
            self.parent_gone = True
            self.target = MISSING_T
            return ("value", None)
        if getattr(self, "parent_gone", False) and n not in ("read_alias", "read_alias_mutate"):
            return ("skip", None)  # (what writing / deleting through a path whose parent is None should do is not stated)
        if n in ("read_alias", "read_alias_mutate"):
            if self.override != self.NONE:
                return ("value", self.override)
            if self.target != MISSING_T:
                return ("value", plus100(self.target) if c["transform"] else self.target)
            if c["fallback"]:
                return ("value", copy.deepcopy(FALLBACK))
            return ("raise", {"AttributeError"})
        if n == "write_alias":
            v = op[1]
            if self.spec() and not c["fallback"] and not isinstance(v, int):
                return ("raise", {"TypeError"})
            if c["passthrough"]:
                if self.spec() and not isinstance(v, int) and c["path"] in ATTR_ENDED:
                    # the write lands on a managed int attribute; item paths write straight into a
                    # plain dict, which bypasses the spec-class API (out of scope for type checks)
                    return ("raise", {"TypeError", "ValueError"})
                self.target = v
            else:
                self.override = v
            return ("value", None)
        if n == "delete_alias":
            if c["passthrough"]:
                if self.target == MISSING_T:
                    return ("raise", {"AttributeError", "KeyError"})
                self.target = self.target_resets_to()
                return ("value", None)
            if self.override == self.NONE:
                return ("raise", {"AttributeError"})
            self.override = self.NONE
            return ("value", None)
        if n == "read_target":
            return ("value", self.target)
        if n == "write_target":
            self.target = op[1]
            return ("value", None)
        if n == "delete_target":
            if self.target == MISSING_T:
                return ("raise", {"AttributeError", "KeyError"})
            self.target = self.target_resets_to()
            return ("value", None)
        if n == "cow_alias":
            return self.apply(["write_alias", op[1]])
        if n == "cow_target":
            self.target = op[1]
            return ("value", None)
        if n == "deepcopy":
            return ("value", None)
        if n == "reset":
            # reset deletes every managed attribute in declaration order (x, d, child, a): the targets
            # go back to their defaults, then `del a` removes the override or - for a passthrough
            # alias - is forwarded to the target
            self.override = self.NONE
            self.target = 1
            if c["passthrough"]:
                self.target = self.target_resets_to()
            return ("value", None)
        raise ValueError(op)


def ops_for(cfg):
    # alias writes 1 and 2 coincide with target values (a local override equal to the current view is
    # still an override); 101 coincides with the transformed view of target 1
    ops = [["read_alias"], ["write_alias", 5], ["write_alias", 1], ["write_alias", 2], ["delete_alias"], ["read_target"],
           ["write_target", 1], ["write_target", 2], ["delete_target"]]
    if cfg["transform"]:
        ops.append(["write_alias", 101])
    if cfg["host"] == "plain":
        # target values that are EQUAL to 1 but are not 1: whatever the alias shows is computed from the current target
        ops += [["write_target", 1.0], ["write_target", True]]
    if cfg["fallback"]:
        ops.append(["read_alias_mutate"])
    if cfg["host"] == "plain" and cfg["path"] != "plain" and not cfg["passthrough"]:
        ops.append(["null_parent"])
    if cfg["host"] == "plain" or cfg["fallback"]:
        ops.append(["write_alias", None])  # a local override / forwarded value of exactly None is a value
        ops.append(["write_alias", [7]])   # a MUTABLE override (copies of the host must not share it)
    if cfg["host"] == "spec":
        ops += [["write_alias", "bad"], ["cow_alias", 5], ["cow_alias", 1], ["deepcopy"], ["reset"]]
        if cfg["path"] == "plain":
            ops.append(["cow_target", 2])
    return ops


def fam(e):
    for b in (AttributeError, KeyError, TypeError, ValueError):
        if isinstance(e, b):
            return b.__name__
    return type(e).__name__


def fingerprint(obj, path):
    d = dict(vars(obj))
    # class-level state the implementation could (wrongly) mutate is part of the state too
    alias = next((vars(k)["a"] for k in type(obj).__mro__ if "a" in vars(k)), None)
    out = [("<alias.fallback>", repr(getattr(alias, "fallback", None)))]
    for k, v in sorted(d.items()):
        if hasattr(v, "__dict__") and not isinstance(v, type):
            out.append((k, sorted((kk, repr(vv)) for kk, vv in vars(v).items())))
        elif isinstance(v, dict) and any(hasattr(x, "__dict__") for x in v.values()):
            out.append((k, sorted((kk, sorted((a, repr(b)) for a, b in vars(vv).items())) for kk, vv in v.items())))
        else:
            out.append((k, repr(v)))
    return repr(out)


def impl_apply(obj, op, cfg):
    """-> (result, obj', warnings_of_class)"""
    n = op[0]
    path = cfg["path"]
    with warnings.catch_warnings(record=True) as w:
        warnings.simplefilter("always")
        try:
            if n == "read_alias":
                r = ("value", obj.a)
            elif n == "read_alias_mutate":
                v = obj.a
                r = ("value", copy.deepcopy(v))
                if isinstance(v, list) and v == FALLBACK:  # (only what was handed out as a FALLBACK is edited - never a stored override)
                    if v and isinstance(v[0], list):
                        v[0].append(98)
                    v.append(99)
            elif n == "write_alias":
                obj.a = op[1]
                r = ("value", None)
            elif n == "delete_alias":
                del obj.a
                r = ("value", None)
            elif n == "read_target":
                r = ("value", target_get(obj, path))
            elif n == "write_target":
                target_set(obj, path, op[1])
                r = ("value", None)
            elif n == "delete_target":
                target_del(obj, path)
                r = ("value", None)
            elif n == "null_parent":
                if path == "dotted":
                    obj.child = None
                elif path in ("item", "sqdot"):
                    obj.d = None
                elif path == "mixed":
                    obj.child.d = None
                elif path == "keydot":
                    obj.e["k"] = None
                r = ("value", None)
            elif n == "cow_alias":
                fp = fingerprint(obj, path)
                new = obj.with_a(op[1])
                if fingerprint(obj, path) != fp or new is obj:
                    r = ("value", "<receiver changed by copy-on-write>")
                else:
                    obj = new
                    r = ("value", None)
            elif n == "cow_target":
                fp = fingerprint(obj, path)
                new = obj.with_x(op[1])
                if fingerprint(obj, path) != fp or new is obj:
                    r = ("value", "<receiver changed by copy-on-write>")
                else:
                    obj = new
                    r = ("value", None)
            elif n == "deepcopy":
                new = copy.deepcopy(obj)
                shared = snap.shared_mutable(obj, new)
                obj = new
                r = ("value", "<the copy shares mutable state with the original>" if shared else None)
            elif n == "reset":
                obj = obj.reset()
                r = ("value", None)
            else:
                raise ValueError(op)
        except Exception as e:
            r = ("raise", e)
    nw = sum(1 for x in w if issubclass(x.category, MyWarning))
    other = [x for x in w if not issubclass(x.category, MyWarning)]
    return r, obj, nw, len(other)


def build(cfg, hist):
    Host = make_host(cfg)
    obj = Host()
    ref = RefAlias(cfg)
    impl_apply(obj, ["read_alias"], cfg)
    for op in hist:
        ref.apply(op)
        _, obj, _, _ = impl_apply(obj, op, cfg)
        # a (silent) read of the alias after every step of the history: reads change nothing, so they never show up in
        # the explored histories themselves - but an implementation that REMEMBERS what a read computed must not serve it later
        impl_apply(obj, ["read_alias"], cfg)
        if hasattr(type(obj), "px"):
            try:
                obj.px  # (fills the cache, like the read the check makes after every judged step)
            except Exception:
                pass
    return obj, ref


ALIAS_OPS = {"read_alias", "read_alias_mutate", "write_alias", "delete_alias"}


def step(cfg, hist, op, out):
    obj, ref = build(cfg, hist)
    k0 = ref.key()
    fp0 = fingerprint(obj, cfg["path"])
    exp = ref.apply(op)
    if exp[0] == "skip":
        return False, obj, ref
    got, obj2, nwarn, nother = impl_apply(obj, op, cfg)
    case = {"cfg": cfg, "history": list(hist), "op": op}
    sig = dict(cfg, op=op[0])
    ok = True
    if exp[0] == "raise":
        if got[0] != "raise":
            out.append(violation(PROP, dict(sig, kind="should_raise", expected=sorted(exp[1])),
                                 {"got": repr(got[1])[:80], "model_before": repr(k0)}, case))
            return False, obj2, ref
        if fam(got[1]) not in exp[1]:
            out.append(violation(PROP, dict(sig, kind="wrong_exception", got=fam(got[1]), expected=sorted(exp[1])),
                                 {"raised": repr(got[1])[:200], "model_before": repr(k0)}, case))
            ok = False
        if fingerprint(obj2, cfg["path"]) != fp0:
            out.append(violation(PROP, dict(sig, kind="changed_on_raise"),
                                 {"before": fp0, "after": fingerprint(obj2, cfg["path"])}, case))
            ok = False
    elif got[0] == "raise":
        out.append(violation(PROP, dict(sig, kind="unexpected_raise", got=fam(got[1])),
                             {"raised": repr(got[1])[:200], "expected": repr(exp[1]), "model_before": repr(k0)}, case))
        return False, obj2, ref
    elif got[1] != exp[1] or type(got[1]) is not type(exp[1]):
        out.append(violation(PROP, dict(sig, kind="wrong_value"),
                             {"expected": repr(exp[1]), "got": repr(got[1])[:80], "model_before": repr(k0)}, case))
        ok = False
    # what the alias shows right after this step (on a copy of the model: the model's read has no effect)
    if got[0] != "raise" and op[0] not in ("read_alias_mutate",):
        ref_view = copy.deepcopy(ref).apply(["read_alias"])
        view, _, _, _ = impl_apply(obj2, ["read_alias"], cfg)
        bad_view = (ref_view[0] == "raise") != (view[0] == "raise") or (
            ref_view[0] != "raise" and (view[1] != ref_view[1] or type(view[1]) is not type(ref_view[1])))
        if bad_view:
            out.append(violation(PROP, dict(sig, kind="wrong_view_after_step"),
                                 {"expected": repr(ref_view[1])[:80], "got": repr(view[1])[:80], "model_before": repr(k0)}, case))
            ok = False
    if cfg["host"] == "spec" and cfg["path"] == "plain" and got[0] != "raise":
        try:
            d = obj2.px
        except Exception as e:
            d = "raised " + type(e).__name__
        want_d = (ref.target if ref.target != MISSING_T else -1) * 2
        if d != want_d:
            out.append(violation(PROP, dict(sig, kind="value_derived_from_target_is_stale"), {"expected": want_d, "got": repr(d)[:60], "model_before": repr(k0)}, case))
            ok = False
    # the target, observed through its own path, must be what the model says
    t = target_get(obj2, cfg["path"])
    if t != ref.target:
        out.append(violation(PROP, dict(sig, kind="target_mismatch"),
                             {"expected_target": repr(ref.target), "got_target": repr(t), "model_before": repr(k0)}, case))
        ok = False
    # deprecation warnings
    if cfg["deprecated"]:
        type_rejected = got[0] == "raise" and isinstance(got[1], TypeError)  # rejected before the alias is reached
        if op[0] in ALIAS_OPS and nwarn < 1 and not type_rejected:
            out.append(violation(PROP, dict(sig, kind="no_deprecation_warning"), {"warnings": nwarn}, case))
            ok = False
        if op[0] in ALIAS_OPS and cfg["host"] == "plain" and nwarn != 1 and not type_rejected:
            out.append(violation(PROP, dict(sig, kind="warning_count"), {"warnings": nwarn}, case))
            ok = False
        if op[0] in ("read_target", "write_target", "delete_target") and nwarn:
            out.append(violation(PROP, dict(sig, kind="spurious_deprecation_warning"), {"warnings": nwarn}, case))
            ok = False
    elif nwarn:
        out.append(violation(PROP, dict(sig, kind="spurious_deprecation_warning"), {"warnings": nwarn}, case))
        ok = False
    return ok, obj2, ref


def explore(cfg):
    C = Counter()
    ops = ops_for(cfg)
    try:
        make_host(cfg)
    except Exception as e:  # a dotted / ["key"] path the alias refuses to follow at all
        C.inc("evaluations")
        C.viol(violation(PROP, dict(cfg, kind="path_rejected", got=fam(e)), {"raised": repr(e)[:200], "path": PATHS[cfg["path"]]},
                         {"cfg": cfg, "history": [], "op": ["read_alias"]}))
        return C.rec
    obj, ref = build(cfg, ())
    seen = {(ref.key(), fingerprint(obj, cfg["path"])): ()}
    frontier = [()]
    depth = 0
    while frontier:
        nxt = []
        for hist in frontier:
            for op in ops:
                out = []
                ok, obj, ref = step(cfg, hist, op, out)
                C.inc("transitions")
                C.inc("evaluations")
                for v in out:
                    C.viol(v)
                if not ok:
                    continue
                C.inc("traces_validated_against_impl")
                key = (ref.key(), fingerprint(obj, cfg["path"]))
                if key not in seen:
                    seen[key] = hist + (op,)
                    nxt.append(hist + (op,))
                    depth = max(depth, len(hist) + 1)
                    C.nontrivial((repr(cfg), repr(key)))
        frontier = nxt
    C.rec["states"] = len(seen)
    C.rec["extra"]["max_depth"] = depth
    C.sample({"cfg": cfg, "deepest_history": list(max(seen.values(), key=len)), "states": len(seen)})
    return C.rec


def run_case(case):
    out = []
    try:
        make_host(case["cfg"])
    except Exception as e:
        cfg = case["cfg"]
        return [violation(PROP, dict(cfg, kind="path_rejected", got=fam(e)), {"raised": repr(e)[:200], "path": PATHS[cfg["path"]]}, case)]
    step(case["cfg"], tuple(case["history"]), case["op"], out)
    return out


def main(run):
    cfgs = []
    for host, dep, pt, tr, fb, path in itertools.product(("plain", "spec"), (False, True), (False, True), (False, True),
                                                         (False, True), PATHS):
        for der in ((None, "plain_sub") if host == "plain" else (None, "spec_sub", "plain_sub")):
            cfgs.append({"host": host, "deprecated": dep, "passthrough": pt, "transform": tr, "fallback": fb, "path": path, "derive": der})
    for rec in pmap(explore, cfgs):
        run.merge(rec)
    run.add(
        configurations=len(cfgs),
        rule=(
            "fixpoint BFS per alias configuration (2 hosts, used directly or through a plain / spec subclass, x Alias/DeprecatedAlias x passthrough x transform x fallback x 6 path "
            "shapes (attribute, dotted, [\"key\"], dotted+key, key+dotted, single-quoted key containing a dot) = 480): ops {read alias (and mutate the returned nested fallback at both levels), write alias 5 / values equal to the current (transformed) view / ill-typed, delete alias, "
            "read/write/delete target through its own path, copy-on-write helper on alias and target, deepcopy, reset}; state = "
            "(reference (target, override), real instance fingerprint); non-trivial = a new distinct state"
        ),
    )
    run.assumptions += [
        "deleting a managed target with a class default on a spec host restores the default (C08 semantics), so the alias then reads the default",
        "on spec hosts with a list fallback the alias attribute is annotated Any (the fallback must be admissible for the alias' own type)",
        "DeprecatedAlias: exactly one warning per access on plain hosts, at least one on spec hosts",
    ]
