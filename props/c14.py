"""
C14 — KeyedSet is a set of items identified by key.

Engine E1: explicit-state BFS over the real `KeyedSet`; state = mapping key -> item (canonical,
sorted), rebuilt by replaying the shortest history on a fresh container.  Reference model
`refkset`: a dict key -> most recently added item.  All public reads are compared after every
operation; binary operators are compared by key set (each result item must be an operand's item
for that key); raising operations must leave all public reads unchanged.

Don't-care zones (verdict not taken, execution still checked for coherence): see DESIGN.md C14.
"""
from __future__ import annotations

import copy
import itertools

from mc.common import Counter, pmap, violation

PROP = "C14"

_SPEC = {}


def _spec_classes():
    if not _SPEC:
        from spec_classes import spec_class

        @spec_class(key="key")
        class SItem:
            key: str
            value: int = 0

        @spec_class(key="key")
        class SOther:
            key: int
            value: int = 0

        SItem(key="warm")
        SOther(key=1)
        _SPEC["SItem"] = SItem
        _SPEC["SOther"] = SOther
    return _SPEC


def first(t):
    return t[0]


class AObj:
    def __init__(self, n, p):
        self.n, self.p = n, p

    def __eq__(self, other):
        return isinstance(other, AObj) and (self.n, self.p) == (other.n, other.p)

    def __hash__(self):
        return hash((self.n, self.p))

    def __repr__(self):
        return f"AObj({self.n!r}, {self.p!r})"


def attr_n(x):
    return x.n


def mod2(x):
    if not isinstance(x, int):
        raise TypeError("mod2 key function is defined on ints only")
    return "k%d" % (x % 2)


class Universe:
    def __init__(self, name, typed, enforce, k=3):
        self.name, self.typed, self.enforce = name, typed, enforce
        self.keys = ["a", "b", "c", "d"][:k]
        self.missing_key = "zz"
        if name == "self":
            self.specs = [(x, None) for x in self.keys]
            self.keyfn, self.targs = None, (str, str)
            self.wrong = [("wrong_item", 7)]
            self.hashable = True
        elif name == "tuple":
            self.specs = [(x, p) for x in self.keys for p in (0, 1)]
            self.keyfn, self.targs = first, (tuple, str)
            self.wrong = [("wrong_item", ["q", 0]), ("wrong_key", (5, 0))]
            self.hashable = True
        elif name == "spec":
            self.specs = [(x, p) for x in self.keys for p in (0, 1)]
            self.keyfn, self.targs = None, (_spec_classes()["SItem"], str)
            self.wrong = [("wrong_item", "q"), ("wrong_item2", ("SOther", 9))]
            self.hashable = True  # (by identity: a built-in set operand can hold them, and finds none of them by value)
        elif name == "mod2":
            # ints keyed by parity: the items 0 / 2 share key 0 (a FALSY stored item), 1 / 3 share key 1
            self.keys = ["k0", "k1"]
            self.specs = [(kk, p) for kk in self.keys for p in (0, 1)]
            self.keyfn, self.targs = mod2, (int, str)
            self.wrong = [("wrong_item", "q")]
            self.hashable = True
        elif name == "selfmismatch":
            # self-keyed strings declared as KeyedSet[str, int]: every item's key has the wrong type
            self.specs = [(x, None) for x in self.keys]
            self.keyfn, self.targs = None, (str, int)
            self.wrong = []
            self.hashable = True
        elif name == "attr":
            # the everyday key function `lambda item: item.n`: raises AttributeError (not TypeError) on a bare key
            self.specs = [(x, p) for x in self.keys for p in (0, 1)]
            self.keyfn, self.targs = attr_n, (AObj, str)
            self.wrong = [("wrong_item", AObj(5, 0))]
            self.hashable = True
        elif name == "eqrepr":
            # 1, True and 1.0 are equal (and hash-equal) Python objects with three different keys under key=repr:
            # anything that remembers per-object answers confuses them
            self.keys = ["1", "True", "1.0"]
            self.specs = [(x, None) for x in self.keys]
            self.keyfn, self.targs = repr, (object, str)
            self.wrong = []
            self.hashable = False  # (a built-in set operand would merge the three items before the container sees them)
        elif name == "eqtuple":
            # per key two EQUAL but distinguishable items ('a', 1) == ('a', 1.0): "the most recently added item"
            self.specs = [(x, p) for x in self.keys for p in ("int", "float")]  # (labels: (x, 1) and (x, 1.0) would be ONE dict key)
            self.keyfn, self.targs = first, (tuple, str)
            self.wrong = [("wrong_item", ["q", 0])]
            self.hashable = False  # (same reason)
        elif name == "tlist":
            # KeyedSet[List[int], int]: whether an item conforms depends on its CONTENTS, not on its class
            self.keys = [1, 2, 3][:k]
            self.missing_key = 99
            self.specs = [(x, p) for x in self.keys for p in (0, 1)]
            from typing import List

            self.keyfn, self.targs = first, (List[int], int)
            self.wrong = [("wrong_item", [2, "y"]), ("wrong_item_new_key", [7, "y"])]
            self.hashable = False
        elif name == "ulist":
            self.specs = [(x, p) for x in self.keys for p in (0, 1)]
            self.keyfn, self.targs = first, (list, str)
            self.wrong = [("wrong_item", ("q", 0)), ("wrong_key", [5, 0])]
            self.hashable = False
        elif name == "utuple":
            # tuples that CONTAIN a list: instances of a hashable class (isinstance(x, Hashable) is true) that cannot be hashed
            self.specs = [(x, p) for x in self.keys for p in (0, 1)]
            self.keyfn, self.targs = first, (tuple, str)
            self.wrong = [("wrong_item", ["q", 0]), ("wrong_key", (5, [0]))]
            self.hashable = False
        else:
            raise ValueError(name)

    def fresh_pool(self):
        pool = {}
        for s in self.specs:
            if self.name in ("self", "selfmismatch"):
                pool[s] = s[0]
            elif self.name == "mod2":
                pool[s] = int(s[0][1]) + 2 * s[1]
            elif self.name == "attr":
                pool[s] = AObj(s[0], s[1])
            elif self.name == "spec":
                pool[s] = _spec_classes()["SItem"](key=s[0], value=s[1])
            elif self.name in ("ulist", "tlist"):
                pool[s] = [s[0], s[1]]
            elif self.name == "utuple":
                pool[s] = (s[0], [s[1]])
            elif self.name == "eqtuple":
                pool[s] = (s[0], 1 if s[1] == "int" else 1.0)
            elif self.name == "eqrepr":
                pool[s] = {"1": 1, "True": True, "1.0": 1.0}[s[0]]
            else:
                pool[s] = (s[0], s[1])
        return pool

    def wrong_obj(self, label):
        for lab, raw in self.wrong:
            if lab == label:
                if isinstance(raw, tuple) and raw and raw[0] == "SOther":
                    return _spec_classes()["SOther"](key=raw[1])
                return raw
        raise KeyError(label)

    def key_of(self, obj):
        if self.name in ("self", "selfmismatch"):
            return obj
        if self.name == "mod2":
            return "k%d" % (obj % 2)
        if self.name == "attr":
            return obj.n
        if self.name == "eqrepr":
            return repr(obj)
        if self.name == "spec":
            return obj.key
        return obj[0]

    def new_container(self, items=(), enforce=None):
        from spec_classes.types import KeyedSet

        enforce = self.enforce if enforce is None else enforce
        if self.typed:
            return KeyedSet[self.targs[0], self.targs[1]](list(items), key=self.keyfn, enforce_item_equivalence=enforce)
        return KeyedSet(list(items), key=self.keyfn, enforce_item_equivalence=enforce)

    def conforms(self, obj):
        it, kt = self.targs
        if self.name == "tlist":
            return isinstance(obj, list) and all(type(x) is int for x in obj) and bool(obj) and isinstance(obj[0], int)
        try:
            return isinstance(obj, it) and isinstance(self.key_of(obj), kt)
        except Exception:
            return False


class Canon:
    def __init__(self, pool):
        self.ids = {id(o): s for s, o in pool.items()}
        self.pool = pool

    def item(self, o):
        s = self.ids.get(id(o))
        if s is not None:
            return ["item", list(s), type(s[1]).__name__]  # (the type name keeps ('a', 1) and ('a', 1.0) apart: the lists are equal)
        for sp, po in self.pool.items():
            try:
                if type(po) is type(o) and po == o and [type(x) for x in (po if isinstance(po, (list, tuple)) else [po])] == [type(x) for x in (o if isinstance(o, (list, tuple)) else [o])]:
                    return ["item", list(sp), type(sp[1]).__name__]
            except Exception:
                pass
        return ["obj", repr(o)[:80]]


def _obs(f):
    try:
        return f()
    except Exception as e:  # an observation that raises is an observation (and differs from the model's)
        return "raises:" + type(e).__name__


def observe_impl(s, u, canon, pool):
    out = {"len": len(s)}
    out["iter"] = sorted(canon.item(x) for x in s)
    out["keys"] = sorted(repr(k) for k in s.keys())
    out["items"] = sorted([repr(k), canon.item(v)] for k, v in s.items())
    per = {}
    for k in list(u.keys) + [u.missing_key]:
        d = {"in": _obs(lambda: k in s)}
        g = s.get(k)
        d["get"] = None if g is None else canon.item(g)
        try:
            d["getitem"] = canon.item(s[k])
        except KeyError:
            d["getitem"] = "KeyError"
        except Exception as e:
            d["getitem"] = "raises:" + type(e).__name__
        per[repr(k)] = d
    out["per_key"] = per
    peri = {}
    for sp, obj in pool.items():
        d = {"in": _obs(lambda: obj in s)}
        peri[repr(sp)] = d
    out["per_item"] = peri
    return out


def observe_model(m, u, canon, pool):
    out = {"len": len(m)}
    out["iter"] = sorted(canon.item(x) for x in m.values())
    out["keys"] = sorted(repr(k) for k in m)
    out["items"] = sorted([repr(k), canon.item(v)] for k, v in m.items())
    per = {}
    for k in list(u.keys) + [u.missing_key]:
        d = {"in": k in m}
        d["get"] = canon.item(m[k]) if k in m else None
        d["getitem"] = canon.item(m[k]) if k in m else "KeyError"
        per[repr(k)] = d
    out["per_key"] = per
    peri = {}
    for sp, obj in pool.items():
        peri[repr(sp)] = {"in": model_contains_item(m, u, obj)}
    out["per_item"] = peri
    return out


def model_contains_item(m, u, obj):
    k = u.key_of(obj)
    if k not in m:
        return False
    return (not u.enforce) or obj == m[k]


# ------------------------------------------------------------------------------------------------
# alphabet
# ------------------------------------------------------------------------------------------------
BINOPS = ["or", "and", "sub", "xor"]
CMPOPS = ["le", "lt", "ge", "gt", "eq", "ne", "isdisjoint"]
IOPS = ["ior", "iand", "isub", "ixor"]
ROPS = ["ror", "rsub", "rand", "rxor"]


def operand_contents(u, max_n=2):
    specs = u.specs
    out = [[]] + [[list(s)] for s in specs]
    if max_n >= 2:
        for a, b in itertools.combinations(specs, 2):
            out.append([list(a), list(b)])
    return out


def alphabet(u):
    items = [["i", s[0], s[1]] for s in u.specs]
    wrong = [["w", lab] for lab, _ in u.wrong] if u.typed else []
    keys = list(u.keys) + [u.missing_key]
    ops = [["len"], ["iter"], ["keys"], ["items"]]
    ops += [["contains", x] for x in items] + [["contains_key", k] for k in keys]
    ops += [["getitem", x] for x in items] + [["getitem_key", k] for k in keys]
    ops += [["get", k] for k in keys]
    ops += [["add", x] for x in items + wrong]
    ops += [["discard", x] for x in items] + [["discard_key", k] for k in keys]
    ops += [["remove", x] for x in items] + [["remove_key", k] for k in keys]
    ops += [["pop"], ["clear"]]
    conts = operand_contents(u)
    for c in conts:
        distinct_keys = len({x[0] for x in c}) == len(c)
        kinds = []
        if distinct_keys:
            kinds.append("ks")
        kinds.append("list")
        if u.hashable:
            kinds.append("set")
        for kind in kinds:
            for op in BINOPS + IOPS:
                ops.append([op, kind, c])
            if kind in ("ks", "set"):
                for op in CMPOPS:
                    ops.append([op, kind, c])
            else:
                ops.append(["isdisjoint", kind, c])
            if kind in ("set", "list"):
                for op in ROPS:
                    ops.append([op, kind, c])
    # the receiver as its own operand (s -= s, s ^= s, s | s, s <= s ...)
    for op in BINOPS + IOPS + CMPOPS:
        ops.append([op, "self", []])
    if u.typed:
        for lab, _ in u.wrong:
            for c in ([["w", lab]], [list(u.specs[0]), ["w", lab]]):
                for op in ("ior", "ixor", "or", "xor"):
                    ops.append([op, "ksu", c])
    return ops


import operator as _op

OPFN = {"or": _op.or_, "and": _op.and_, "sub": _op.sub, "xor": _op.xor}


class Raised:
    def __init__(self, exc):
        self.exc = exc

    def family(self):
        for base in (KeyError, IndexError, ValueError, TypeError, RuntimeError):
            if isinstance(self.exc, base):
                return base.__name__
        return type(self.exc).__name__


LAST = {"operand": None}


def mk_operand(u, pool, kind, content, receiver=None):
    if kind == "self":
        return receiver, list(receiver)
    # operand members are EQUAL COPIES of the pool objects, never the very objects the receiver holds: whether two sets
    # "share an item" must not hinge on object identity (spec-class instances compare by value but hash by identity)
    objs = [(u.wrong_obj(x[1]) if x[0] == "w" else copy.deepcopy(pool[(x[0], x[1])])) for x in content]
    if kind == "ksu":
        # an UNTYPED KeyedSet with the receiver's key function (what a typed receiver must still validate item by item)
        from spec_classes.types import KeyedSet

        return KeyedSet(objs, key=u.keyfn), objs
    if kind == "ks":
        return u.new_container(objs), objs
    if kind == "set":
        return set(objs), objs
    return list(objs), objs


def apply_impl(s, op, u, pool):
    import operator

    name = op[0]

    def A(a):
        return pool[(a[1], a[2])] if a[0] == "i" else u.wrong_obj(a[1])

    try:
        if name == "len":
            return len(s), s
        if name == "iter":
            return list(s), s
        if name == "keys":
            return sorted(repr(k) for k in s.keys()), s
        if name == "items":
            return sorted(repr(k) for k, _ in s.items()), s
        if name == "contains":
            return A(op[1]) in s, s
        if name == "contains_key":
            return op[1] in s, s
        if name == "getitem":
            return s[A(op[1])], s
        if name == "getitem_key":
            return s[op[1]], s
        if name == "get":
            return s.get(op[1]), s
        if name == "add":
            return s.add(A(op[1])), s
        if name == "discard":
            return s.discard(A(op[1])), s
        if name == "discard_key":
            return s.discard(op[1]), s
        if name == "remove":
            return s.remove(A(op[1])), s
        if name == "remove_key":
            return s.remove(op[1]), s
        if name == "pop":
            return s.pop(), s
        if name == "clear":
            return s.clear(), s
        operand, _ = mk_operand(u, pool, op[1], op[2], receiver=s)
        LAST["operand"] = operand
        if name in BINOPS:
            return OPFN[name](s, operand), s
        if name in ROPS:
            return OPFN[name[1:]](operand, s), s
        if name in IOPS:
            s2 = getattr(operator, name)(s, operand)
            return None, s2
        if name == "isdisjoint":
            return s.isdisjoint(operand), s
        if name in CMPOPS:
            return getattr(operator, name)(s, operand), s
    except Exception as e:
        return Raised(e), s
    except BaseException as e:
        if type(e).__name__ == "BaseTypeError":
            return Raised(e), s
        raise
    raise ValueError(op)


SKIP = ("skip",)


def apply_model(m, op, u, pool):
    """-> (expected, new_mapping).  expected is a plain value, ('raise', {families}), SKIP,
    ('keyset', keys, allowed_items_by_key) for binary results, or ('popped',)."""
    name = op[0]
    m = dict(m)

    def A(a):
        return pool[(a[1], a[2])] if a[0] == "i" else u.wrong_obj(a[1])

    if name == "len":
        return len(m), m
    if name == "iter":
        return ("itemset", list(m.values())), m
    if name in ("keys", "items"):
        return sorted(repr(k) for k in m), m
    if name == "contains":
        return model_contains_item(m, u, A(op[1])), m
    if name == "contains_key":
        return op[1] in m, m
    if name == "getitem":
        o = A(op[1])
        k = u.key_of(o)
        if k not in m:
            return ("raise", {"KeyError"}), None
        if u.enforce and not (o == m[k]):
            return SKIP, m  # lookup by an unequal item under enforce_item_equivalence: unspecified
        return m[k], m
    if name == "getitem_key":
        if op[1] not in m:
            return ("raise", {"KeyError"}), None  # (also when a partial user key function raises on the non-item)
        return m[op[1]], m
    if name == "get":
        return m.get(op[1]), m
    if name == "add":
        if op[1][0] == "w":
            return ("raise", {"TypeError"}), None
        o = A(op[1])
        if u.typed and not u.conforms(o):
            return ("raise", {"TypeError"}), None
        k = u.key_of(o)
        if u.enforce and k in m and not (m[k] == o):
            return ("raise", {"ValueError"}), None
        m.pop(k, None) if False else None
        m[k] = o
        return None, m
    if name in ("discard", "remove"):
        o = A(op[1])
        k = u.key_of(o)
        hit = model_contains_item(m, u, o)
        if name == "remove" and not hit:
            return ("raise", {"KeyError"}), None
        if hit:
            del m[k]
        return None, m
    if name in ("discard_key", "remove_key"):
        if name == "remove_key" and op[1] not in m:
            return ("raise", {"KeyError"}), None
        m.pop(op[1], None)
        return None, m
    if name == "pop":
        if not m:
            return ("raise", {"KeyError"}), None
        return ("popped",), m
    if name == "clear":
        return None, {}

    # binary / in-place / comparison operators
    kind, content = op[1], op[2]
    if any(x[0] == "w" for x in content):
        return SKIP, m  # wrong-typed operand members: only 'never admitted' and coherence are demanded
    objs = [pool[(x[0], x[1])] for x in content] if kind != "self" else list(m.values())
    if u.typed and any(not u.conforms(o) for o in objs):
        return SKIP, m  # operand / result items are not admissible for this parameterisation
    bkeys = [u.key_of(o) for o in objs]
    dup_in_operand = len(set(bkeys)) != len(bkeys)
    conflict = dup_in_operand or any(k in m and not (m[k] == o) for k, o in zip(bkeys, objs))
    A_keys, B_keys = set(m), set(bkeys)
    allowed = {}
    for k, o in m.items():
        allowed.setdefault(k, []).append(o)
    for k, o in zip(bkeys, objs):
        allowed.setdefault(k, []).append(o)
    # a built-in set / list operand has no keys of its own: its members are identified by the receiver's key function too.
    # Left as don't-care: == / != against it (value based by documentation), operands holding two members of one key,
    # and conflicts under enforce_item_equivalence (which of the two refusals comes first is not stated)
    judged = not conflict or (not u.enforce and not dup_in_operand and (kind == "ks" or name not in ("eq", "ne")))
    if name in ("or", "ror"):
        keys = A_keys | B_keys
    elif name in ("and", "rand"):
        keys = A_keys & B_keys
    elif name == "sub":
        keys = A_keys - B_keys
    elif name == "rsub":
        keys = B_keys - A_keys
    elif name in ("xor", "rxor"):
        keys = A_keys ^ B_keys
    else:
        keys = None
    if name in BINOPS + ROPS:
        if not judged:
            return SKIP, m
        return ("keyset", keys, allowed), m
    if name in IOPS:
        if not judged:
            return SKIP, m
        if name == "ior":
            for k, o in zip(bkeys, objs):
                m[k] = o
        elif name == "iand":
            m = {k: v for k, v in m.items() if k in B_keys}
        elif name == "isub":
            m = {k: v for k, v in m.items() if k not in B_keys}
        elif name == "ixor":
            new = {k: v for k, v in m.items() if k not in B_keys}
            for k, o in zip(bkeys, objs):
                if k not in A_keys:
                    new[k] = o
            m = new
        return None, m
    if name == "isdisjoint":
        if not judged:
            return SKIP, m
        return not (A_keys & B_keys), m
    if name in ("eq", "ne"):
        if A_keys != B_keys:
            return (name == "ne"), m
        if kind == "set" and len(set(objs)) != len(m):
            return (name == "ne"), m  # however items are matched up: sets of different sizes are never equal
        if conflict:
            return SKIP, m  # equal key sets, different payloads: 'algebra on keys' vs 'mapping' disagree
        return (name == "eq"), m
    if not judged:
        return SKIP, m
    if name == "le":
        return A_keys <= B_keys, m
    if name == "lt":
        return A_keys < B_keys, m
    if name == "ge":
        return A_keys >= B_keys, m
    if name == "gt":
        return A_keys > B_keys, m
    raise ValueError(op)


def sig_for(u, op, kind, **kw):
    d = {"universe": u.name, "typed": u.typed, "enforce": u.enforce, "op": op[0], "kind": kind}
    if len(op) > 2 and isinstance(op[1], str):
        d["operand"] = op[1]
    d.update(kw)
    return d


def coherent(s, u, canon, is_result=False):
    """weak invariant checked even in don't-care zones: one item per key, keys match items,
    typed containers hold only conforming items"""
    problems = []
    items = list(s)
    ks = [u.key_of(x) for x in items if canon.item(x)[0] == "item"]
    if len(set(ks)) != len(ks):
        problems.append("two items with the same key")
    if sorted(repr(k) for k in s.keys()) != sorted(repr(k) for k in ks) and len(ks) == len(items):
        problems.append("keys() disagrees with the items' keys")
    if len(s) != len(items):
        problems.append("len disagrees with iteration")
    if u.typed and not is_result:  # (whether the fresh result of a binary operator keeps the type parameters is not stated)
        for x in items:
            if not u.conforms(x):
                problems.append(f"typed container holds non-conforming item {x!r:.40}")
    return problems


def step(u, pool, canon, s, m, op, case, out):
    pre = observe_impl(s, u, canon, pool)
    pre_order = [id(x) for x in s]
    LAST["operand"] = None
    exp, m2 = apply_model(m, op, u, pool)
    got, s2 = apply_impl(s, op, u, pool)
    ok = True
    if isinstance(got, Raised) and op[0] not in IOPS and [id(x) for x in s2] != pre_order and sorted(pre_order) == sorted(id(x) for x in s2):
        # same items, another iteration order: a refused operation "changes nothing" - pop() would now return another item
        out.append(violation(PROP, sig_for(u, op, "order_changed_on_raise", raised=got.family()), {"before": pre["items"]}, case))
        ok = False
    if op[0] in BINOPS + ROPS and not isinstance(got, Raised) and (got is s or (LAST["operand"] is not None and got is LAST["operand"])):
        # set algebra yields a NEW set: a result that is one of the operands makes later changes to it show in the operand
        out.append(violation(PROP, sig_for(u, op, "result_is_an_operand", which="receiver" if got is s else "operand"), {"receiver": pre["items"]}, case))
        ok = False
    if exp is SKIP:
        # don't-care verdict; still demand coherence and, if it raised, no change
        post = observe_impl(s2, u, canon, pool)
        pr = coherent(s2, u, canon)
        if isinstance(got, Raised):
            if op[0] not in IOPS and post != pre:
                out.append(violation(PROP, sig_for(u, op, "changed_on_raise", raised=got.family(), zone="dontcare"),
                                     {"before": pre["items"], "after": post["items"]}, case))
        elif hasattr(got, "keys") and hasattr(got, "enforce_item_equivalence"):
            pr += coherent(got, u, canon, is_result=True)
        if op[0] not in IOPS and not isinstance(got, Raised) and post != pre:
            out.append(violation(PROP, sig_for(u, op, "receiver_changed", zone="dontcare"),
                                 {"before": pre["items"], "after": post["items"]}, case))
        if pr:
            out.append(violation(PROP, sig_for(u, op, "incoherent", zone="dontcare"), {"problems": pr}, case))
        return False if (pr) else True, s2, m, "skip"
    if isinstance(exp, tuple) and exp and exp[0] == "raise":
        fams = exp[1]
        if not isinstance(got, Raised):
            out.append(violation(PROP, sig_for(u, op, "should_raise", expected=sorted(fams)),
                                 {"expected": sorted(fams), "got": repr(got)[:120], "before": pre["items"],
                                  "after": observe_impl(s2, u, canon, pool)["items"]}, case))
            return False, s2, m, "viol"
        if got.family() not in fams:
            out.append(violation(PROP, sig_for(u, op, "wrong_exception", expected=sorted(fams), got=got.family()),
                                 {"raised": repr(got.exc)[:200], "before": pre["items"]}, case))
            ok = False
        post = observe_impl(s2, u, canon, pool)
        if post != pre:
            out.append(violation(PROP, sig_for(u, op, "changed_on_raise", raised=got.family()),
                                 {"before": pre["items"], "after": post["items"], "raised": repr(got.exc)[:200]}, case))
            ok = False
        return ok, s2, m, "raise:" + got.family()
    if isinstance(got, Raised):
        out.append(violation(PROP, sig_for(u, op, "unexpected_raise", got=got.family()),
                             {"raised": repr(got.exc)[:200], "before": pre["items"],
                              "after": observe_impl(s2, u, canon, pool)["items"]}, case))
        return False, s2, m, "viol"
    # result comparison
    if isinstance(exp, tuple) and exp and exp[0] == "keyset":
        _, keys, allowed = exp
        from spec_classes.types import KeyedSet

        if not isinstance(got, KeyedSet):
            out.append(violation(PROP, sig_for(u, op, "result_not_keyedset"), {"got": repr(got)[:100]}, case))
            ok = False
        else:
            ritems = list(got)
            rkeys = [u.key_of(x) for x in ritems]
            bad = sorted(repr(k) for k in rkeys) != sorted(repr(k) for k in keys)
            try:
                members = list(LAST["operand"]) if LAST["operand"] is not None else []  # (the operand holds equal COPIES of the pool objects)
            except Exception:
                members = []
            bad_item = any(not any(x is a for a in allowed.get(k, [])) and not any(x is a for a in members) for k, x in zip(rkeys, ritems))
            pr = coherent(got, u, canon, is_result=True)
            robs_keys = sorted(repr(k) for k in got.keys())
            if bad or bad_item or pr or robs_keys != sorted(repr(k) for k in keys):
                out.append(violation(PROP, sig_for(u, op, "wrong_result"),
                                     {"expected_keys": sorted(repr(k) for k in keys), "got_items": [canon.item(x) for x in ritems],
                                      "got_keys": robs_keys, "problems": pr, "receiver": pre["items"], "operand": op[2]}, case))
                ok = False
    elif isinstance(exp, tuple) and exp and exp[0] == "itemset":
        if sorted(canon.item(x) for x in got) != sorted(canon.item(x) for x in exp[1]):
            out.append(violation(PROP, sig_for(u, op, "wrong_result"), {"got": [canon.item(x) for x in got]}, case))
            ok = False
    elif isinstance(exp, tuple) and exp and exp[0] == "popped":
        k = None
        ci = canon.item(got)
        if ci[0] != "item" or u.key_of(got) not in m or m[u.key_of(got)] is not got:
            out.append(violation(PROP, sig_for(u, op, "wrong_result"), {"got": ci, "before": pre["items"]}, case))
            ok = False
        else:
            k = u.key_of(got)
            m2 = {kk: v for kk, v in m.items() if kk != k}
    else:
        same = (canon.item(got) == canon.item(exp)) if not isinstance(exp, (bool, int, list, type(None))) else got == exp
        if isinstance(exp, bool) and not isinstance(got, bool):
            same = False
        if not same:
            out.append(violation(PROP, sig_for(u, op, "wrong_result"),
                                 {"expected": repr(exp)[:100], "got": repr(got)[:100], "receiver": pre["items"],
                                  "operand": op[2] if len(op) > 2 else None}, case))
            ok = False
    post = observe_impl(s2, u, canon, pool)
    mobs = observe_model(m2, u, canon, pool)
    if post != mobs:
        diff = [k for k in post if post[k] != mobs[k]]
        out.append(violation(PROP, sig_for(u, op, "state_mismatch", fields=diff[:3]),
                             {"before": pre["items"], "after": post["items"], "expected": mobs["items"]}, case))
        ok = False
    pr = coherent(s2, u, canon)
    if pr:
        out.append(violation(PROP, sig_for(u, op, "incoherent"), {"problems": pr}, case))
        ok = False
    return ok, s2, m2, "ok"


def sync(m, s, canon):
    """operands hold equal COPIES of the pool objects, so after an in-place operator the container may hold a copy where the
    model holds the pool object: the model adopts the container's object when both denote the same item (identity of
    results is then judged against what the container really holds)"""
    out = dict(m)
    for k, v in m.items():
        try:
            real = s.get(k)
        except Exception:
            continue
        if real is not None and real is not v and canon.item(real) == canon.item(v):
            out[k] = real
    return out


def build(u, history):
    pool = u.fresh_pool()
    canon = Canon(pool)
    s = u.new_container()
    m = {}
    for op in history:
        exp, m2 = apply_model(m, op, u, pool)
        got, s = apply_impl(s, op, u, pool)
        if isinstance(exp, tuple) and exp and exp[0] == "popped":
            m2 = {k: v for k, v in m.items() if v is not got}
        m = sync(m2 if m2 is not None else m, s, canon)
    return pool, canon, s, m


def run_case(case):
    u = Universe(case["universe"], case["typed"], case["enforce"], case.get("k", 3))
    pool, canon, s, m = build(u, case["history"])
    out = []
    step(u, pool, canon, s, m, case["op"], case, out)
    return out


def explore(shard):
    u = Universe(shard["universe"], shard["typed"], shard["enforce"], shard["k"])
    C = Counter()
    ops = alphabet(u)
    seen = {(): ()}
    frontier = [((), ())]
    depth_max = 0
    while frontier:
        nxt = []
        for key0, hist in frontier:
            for op in ops:
                pool, canon, s, m = build(u, hist)
                case = {"universe": u.name, "typed": u.typed, "enforce": u.enforce, "k": shard["k"],
                        "history": list(hist), "op": op}
                out = []
                ok, s2, m2, outcome = step(u, pool, canon, s, m, op, case, out)
                C.inc("transitions")
                C.inc("evaluations")
                C.outcome(outcome)
                for v in out:
                    C.viol(v)
                if ok and outcome != "skip":
                    C.inc("traces_validated_against_impl")
                changed = outcome == "ok" and sorted(map(repr, m2.items())) != sorted(map(repr, m.items()))
                if changed or outcome.startswith("raise"):
                    C.nontrivial((key0, repr(op)))
                if not ok or outcome != "ok":
                    continue
                key = tuple(sorted((k, canon.item(v)[1][1]) for k, v in m2.items()))
                if key not in seen:
                    seen[key] = hist + (op,)
                    nxt.append((key, hist + (op,)))
                    depth_max = max(depth_max, len(hist) + 1)
        frontier = nxt
    C.rec["states"] = len(seen)
    C.rec["extra"]["max_depth"] = depth_max
    C.rec["extra"]["shards"] = [
        f"{u.name}/{'typed' if u.typed else 'untyped'}/{'enforce' if u.enforce else 'noenforce'}: states={len(seen)} depth={depth_max} ops_per_state={len(ops)}"
    ]
    C.sample({"universe": u.name, "typed": u.typed, "enforce": u.enforce, "history": list(seen[max(seen, key=len)])})
    return C.rec


UNIVERSES = ["self", "tuple", "spec", "ulist", "utuple", "mod2", "selfmismatch", "attr", "eqrepr", "eqtuple", "tlist"]
ONLY = {"eqrepr": {"typed": (False,)}, "tlist": {"typed": (True,)}}


def main(run):
    k = 3 if run.tier == "quick" else 4
    shards = [
        {"universe": un, "typed": t, "enforce": e, "k": k}
        for un in UNIVERSES
        for t in ONLY.get(un, {}).get("typed", (False, True))
        for e in (False, True)
    ]
    for rec in pmap(explore, shards):
        run.merge(rec)
    run.add(
        rule=(
            "BFS to fixpoint over operation histories of the real KeyedSet from the empty set; state = mapping "
            "key -> item over %d keys x 2 payloads; every operation of the alphabet incl. all binary / in-place / "
            "comparison operators against every KeyedSet / built-in set / list operand of <= 2 items; non-trivial = "
            "changes the mapping or raises" % k
        ),
        keys=k,
    )
    run.assumptions += [
        "don't-care zones (DESIGN.md C14): built-in operands carrying a different payload under a shared key; "
        "enforce_item_equivalence with conflicting payloads in multi-item operators; == when key sets agree but payloads differ; "
        "s[item] by an unequal item under enforce_item_equivalence",
        "items are never mutated during a run",
    ]
