"""
C01 — copy-on-write helpers never change the receiver (nor the arguments).

E1 over every non-frozen, non-do_not_copy=True class of the grammar family; judged transitions are
helper calls without _inplace=True (valid and invalid arguments); in-place calls, assignments,
deletions and constructor calls only build states.  E2 adds, for every judged transition, every
user-callback fault (f,k) and - up to the stated depth - every executed library line as a fault.
Oracle: same_graph (identical node ids, identical shallow contents) for the receiver and for every
argument object, whether the call returned or raised.
"""
from __future__ import annotations

from mc import explore, grammar as G, snap
from mc import spec_ops as S
from mc.common import pmap

PROP = "C01"


class Oracle:
    faults = ("callbacks", "lines")

    def __init__(self, task):
        self.task = task
        self.quick = task.get("tier") == "quick"

    def applies(self, rec):
        o = rec.get("opts", {})
        # (a class declared do_not_copy=True is edited in place by design; a subclass that does not restate that is not)
        return not o.get("frozen") and (o.get("do_not_copy") is not True or bool(o.get("sub_inherits_policy")))

    def profile(self, rec):
        P = {"raising": True, "invalid": True, "ctor": False}
        if self.quick or len(rec["attrs"]) > 1:
            P["small"] = True
        return P

    def checked(self, op):
        return op["op"] == "call" and not op.get("kw", {}).get("_inplace")

    def pre(self, ctx):
        w = ctx.world
        for a in ctx.rec["attrs"]:
            if a.get("prop") == "stored":
                # the harness's own getter creates the private store on first read: read once before the snapshot
                for o in w.objs:
                    G.CB.suspended = True
                    try:
                        getattr(o, G.attr_name(a))
                    except Exception:
                        pass
                    finally:
                        G.CB.suspended = False
        t = ctx.op.get("t", 0)
        if ctx.op["op"] != "new" and t < len(w.objs):
            ctx.store["recv"] = snap.Snapshot({"recv": w.objs[t]})
        ctx.store["args"] = snap.Snapshot({f"arg{i}": a for i, a in enumerate(w.args)})
        ctx.store["envroots"] = snap.Snapshot(G.env_roots(ctx.env))
        ctx.store["pre_done"] = True

    def post(self, ctx, out):
        if not self.checked(ctx.op):
            return []
        v = []
        d = snap.same_graph(ctx.store["recv"], ignore_new_keys=cache_fill_neutral)
        if d:
            v.append(explore.violation(PROP, ctx.sig("receiver_changed", raised=out.family()),
                                       {"diff": d[:3], "outcome": out.brief()}, ctx.case()))
        d = snap.same_graph(ctx.store["args"])
        if d:
            v.append(explore.violation(PROP, ctx.sig("argument_changed", raised=out.family()),
                                       {"diff": d[:3], "outcome": out.brief()}, ctx.case()))
        d = snap.same_graph(ctx.store["envroots"])
        if d:  # an object a preparer resolved its argument to is an argument, too
            v.append(explore.violation(PROP, ctx.sig("resolved_argument_changed", raised=out.family()),
                                       {"diff": d[:3], "outcome": out.brief()}, ctx.case()))
        return v


def cache_fill_neutral(obj, key):
    """a cached spec_property entry that appears during a copy-on-write call is neutral when it
    stores exactly what the getter returns on the unchanged state (DESIGN.md 3.5)"""
    d = vars(type(obj)).get(key)
    for k in type(obj).__mro__:
        if key in vars(k):
            d = vars(k)[key]
            break
    if d is None or type(d).__name__ != "spec_property" or not getattr(d, "cache", False):
        return False
    try:
        stored, computed = vars(obj)[key], d.fget(obj)
        if stored == computed:
            return True
        # (the getter's result is PREPARED before it is cached: a tuple handed out for a list attribute is stored as a list)
        return isinstance(stored, list) and isinstance(computed, (tuple, list)) and stored == list(computed)
    except Exception:
        return False


def make_oracle(task):
    return Oracle(task)


def run_case(case):
    return explore.replay_case(case, "props.c01")


def tasks_for(run, module, prop, quick_depth=2, thorough_depth=3, lf_quick=0, lf_thorough=1):
    quick = run.tier == "quick"
    recs = G.quick_family() if quick else G.full_family()
    tasks = []
    for rec in recs:
        comp = len(rec["attrs"]) > 1
        if quick:
            depth = (2 if prop in ("C03", "C04", "C05") else 1) if comp else quick_depth
        else:
            depth = thorough_depth if comp else quick_depth + 1
        tasks.append({"rec": rec, "depth": depth, "module": module, "prop": prop, "tier": run.tier,
                      "line_fault_depth": lf_quick if quick else lf_thorough,
                      "inits": 2 if quick else None,
                      "max_states": 1500 if quick else 6000})
    if prop in ("C01", "C02", "C04", "C05"):
        for rec in G.twin_records():
            tasks.append({"rec": rec, "depth": 2 if quick else 3, "module": module, "prop": prop, "tier": run.tier,
                          "line_fault_depth": lf_quick if quick else lf_thorough, "inits": 2, "max_states": 1500 if quick else 6000})
    if prop in ("C04",):
        for rec in G.validated_item_records() + G.failing_invalidation_records() + G.empty_state_records() + G.dnc_class_records():
            tasks.append({"rec": rec, "depth": 2, "module": module, "prop": prop, "tier": run.tier,
                          "line_fault_depth": 0, "inits": 2, "max_states": 800})
    if prop in ("C01", "C02"):
        # the __post_copy__ hook completes the COPY (it writes to it): it must never see - or touch - the original
        for rec in (G.single("nums", "mut", post_copy="assigns"), G.composite("CompPostCopyAssigns", [("int", "lit"), ("leaf", "mut")], post_copy="assigns")):
            tasks.append({"rec": rec, "depth": 2, "module": module, "prop": prop, "tier": run.tier,
                          "line_fault_depth": 0, "inits": 2, "max_states": 800})
    if prop in ("C01",):
        for rec in G.dnc_parent_records():
            tasks.append({"rec": rec, "depth": 2, "module": module, "prop": prop, "tier": run.tier,
                          "line_fault_depth": 0, "inits": 2, "max_states": 800})
    if prop in ("C01", "C04"):
        for rec in G.property_served_records() + G.uncopyable_records():
            tasks.append({"rec": rec, "depth": 2, "module": module, "prop": prop, "tier": run.tier,
                          "line_fault_depth": 0, "inits": 3, "max_states": 800})
    if prop in ("C02",):
        for rec in G.uncopyable_records() + G.private_state_records():
            tasks.append({"rec": rec, "depth": 2, "module": module, "prop": prop, "tier": run.tier,
                          "line_fault_depth": 0, "inits": 3, "max_states": 800})
    if prop in ("C02", "C08"):
        for rec in G.policy_inheritance_records():
            tasks.append({"rec": rec, "depth": 2, "module": module, "prop": prop, "tier": run.tier,
                          "line_fault_depth": 0, "inits": 2, "max_states": 800})
    if prop in ("C05", "C08", "C02", "C03"):
        for rec in G.base_first_records():
            tasks.append({"rec": rec, "depth": 2, "module": module, "prop": prop, "tier": run.tier,
                          "line_fault_depth": 0, "inits": 2, "max_states": 800})
    if prop in ("C05", "C06"):
        for rec in G.reprepare_records():
            tasks.append({"rec": rec, "depth": 2, "module": module, "prop": prop, "tier": run.tier,
                          "line_fault_depth": 0, "inits": 2, "max_states": 800})
    if prop in ("C03",):
        # attributes served by a descriptor (overridable spec_property, property with a setter) are type-checked like any other
        for rec in G.property_served_records()[:4] + G.setter_served_records():
            tasks.append({"rec": rec, "depth": 2, "module": module, "prop": prop, "tier": run.tier,
                          "line_fault_depth": 0, "inits": 2, "max_states": 800})
    if prop in ("C03",):
        for rec in G.bad_default_records():
            tasks.append({"rec": rec, "depth": 2, "module": module, "prop": prop, "tier": run.tier,
                          "line_fault_depth": 0, "inits": None, "max_states": 800})
    if prop in ("C01", "C03", "C04", "C07"):
        for rec in G.lookup_records():
            tasks.append({"rec": rec, "depth": 2 if quick else 3, "module": module, "prop": prop, "tier": run.tier,
                          "line_fault_depth": lf_quick if quick else lf_thorough, "inits": None, "max_states": 1500 if quick else 6000})
    return tasks


def main(run):
    tasks = tasks_for(run, "props.c01", PROP)
    for rec in pmap(explore.explore_class, tasks):
        run.merge(rec)
    run.add(rule=(
        "BFS over histories (constructor, assignment, deletion, in-place and copy-on-write helper calls) of each generated "
        "class; judged transitions = helper calls without _inplace=True, each also re-executed with every user-callback "
        "fault (f,k) and, from states up to line_fault_depth, with an exception injected at every executed library line "
        "(one representative per call shape and state depth); non-trivial = raises or changes the canonical state"
    ))
    run.assumptions += [
        "transforms and preparers of the pool are pure (a callback mutating its own argument is user error)",
        "classes are warmed (every helper called once) before judging; lazily executed first-call code is not fault-injected here",
        "line faults have source-line granularity",
    ]
