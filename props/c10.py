"""
C10 — equality, copying and repr are coherent and total.

E4/E1 enumeration:
 (a) per class of the family (and a class together with its subclass): a pool of reachable states
     (constructor variants + one helper step, deduplicated canonically, <= 12); ALL ordered pairs
     and triples: reflexive / symmetric / transitive; same-class x == y iff every compare-enabled
     attribute is equal (missing equals only missing); (x != y) == not (x == y);
     deepcopy(x) == x; C(**own init-enabled values) == x; repr(x) never raises and lists exactly
     the repr-enabled attributes in declaration order.
 (b) single-difference pairs: classes whose attributes hold ints, strs, lists, bound methods, plain
     functions, classes, modules and a compare=False attribute, in EVERY declaration order
     (all permutations); for each attribute position a pair of instances differing in exactly that
     attribute must compare unequal (equal iff the attribute is compare=False).
 (c) repr of self-referential structures (direct, inside list / dict, mutual cycle) and of
     instances with missing values never raises.
"""
from __future__ import annotations

import copy
import itertools
import sys

from mc import grammar as G, snap
from mc import spec_ops as S
from mc.common import Counter, pmap, violation

PROP = "C10"


# ------------------------------------------------------------------------------------------------
# helpers
# ------------------------------------------------------------------------------------------------
def _dealias(o, stack=()):
    """an equal value in which no object occurs twice (cycles excepted): equality of VALUES does not depend on whether two
    positions hold the same object or two equal ones, whereas the canonical form (3.1) deliberately does"""
    if id(o) in stack:
        return o
    st = stack + (id(o),)
    if type(o) is list:
        return [_dealias(x, st) for x in o]
    if type(o) is tuple:
        return tuple(_dealias(x, st) for x in o)
    if type(o) is dict:
        return {k: _dealias(v, st) for k, v in o.items()}
    if hasattr(type(o), "__spec_class__") and not isinstance(o, type):
        try:
            clone = object.__new__(type(o))
            clone.__dict__.update({k: _dealias(v, st) for k, v in vars(o).items()})
            return clone
        except Exception:
            return o
    return o


def values_equal(a, b):
    return snap.canon([_dealias(a)]) == snap.canon([_dealias(b)])


def expected_equal(x, y, md):
    """reference: all compare-enabled attributes equal, missing equals only missing"""
    for n, a in md.attrs.items():
        if not a.compare:
            continue
        vx, vy = attr_value(x, n), attr_value(y, n)
        if (vx is _ABSENT) != (vy is _ABSENT):
            return False
        if vx is not _ABSENT and not values_equal(vx, vy):
            return False
    return True


_ABSENT = object()


def attr_value(x, n):
    """what the attribute holds: the stored value, or - for attributes served by a descriptor (Alias, property) - what
    reading it gives; _ABSENT when it has no value"""
    if n in vars(x):
        return vars(x)[n]
    if hasattr(type(vars(type(x)).get(n, None)), "__get__") or any(hasattr(type(vars(k).get(n)), "__get__") for k in type(x).__mro__ if n in vars(k)):
        try:
            return getattr(x, n)
        except AttributeError:
            return _ABSENT
    return _ABSENT


def repr_names(r):
    """names `name=` at nesting depth 1 of 'Cls(...)' (quote- and bracket-aware)"""
    i = r.find("(")
    if i < 0:
        return None
    names, depth, tok, q = [], 0, "", None
    for ch in r[i:]:
        if q:
            if ch == q:
                q = None
            continue
        if ch in "'\"":
            q = ch
            continue
        if ch in "([{":
            depth += 1
            tok = ""
            continue
        if ch in ")]}":
            depth -= 1
            tok = ""
            continue
        if depth == 1:
            if ch == "=":
                names.append(tok.strip())
                tok = ""
            elif ch == ",":
                tok = ""
            else:
                tok += ch
    return names


def pool_for(env, rec, limit=12):
    """reachable instances: constructor variants + one in-place step each"""
    P = {"invalid": False, "raising": False, "small": True, "element": True, "toplevel": False, "deepcopy": False,
         "sentinels": False, "iffalse": False, "inplace": (True,)}
    out, seen = [], set()
    for h in S.initial_histories(rec, P):
        w = S.build(env, h)
        if not w.objs:
            continue
        cands = [h]
        for op in S.gen_ops(rec, w, P)[:40]:
            cands.append(h + (op,))
        for hh in cands:
            w2 = S.build(env, hh)
            if not w2.objs:
                continue
            k = snap.canon(w2.objs)
            if k not in seen:
                seen.add(k)
                out.append((hh, w2.obj))
            if len(out) >= limit:
                return out + order_histories(env, rec, seen)
    return out + order_histories(env, rec, seen)


def order_histories(env, rec, seen):
    """states whose __dict__ insertion order differs from declaration order: an invalidating attribute
    without default assigned AFTER construction, then its dependant re-assigned (a deepcopy that
    replays the attributes in storage order must not let the invalidator reset the dependant)"""
    inv = rec.get("opts", {}).get("invalidated_by", {})
    if not inv:
        return []
    tab = {n: (K, a) for n, K, a in S.attr_table(rec)}
    out = []
    for dep, srcs in inv.items():
        for src in srcs:
            if src not in tab or dep not in tab:
                continue
            vs, vd = tab[src][0]["conf"][-1], tab[dep][0]["conf"][-1]
            for first in (({"op": "new", "kw": {}, "shape": "new:defaults"},), ({"op": "new", "kw": {src: tab[src][0]["conf"][0]}, "shape": "new:conf"},)):
                for mid in ((), ({"op": "del", "attr": src, "shape": "del"},)):
                    hh = first + mid + ({"op": "set", "attr": src, "value": vs, "shape": "assign:conf"},
                                        {"op": "set", "attr": dep, "value": vd, "shape": "assign:conf"})
                    try:
                        w = S.build(env, hh)
                    except Exception:
                        continue
                    if not w.objs:
                        continue
                    k = (snap.canon(w.objs), tuple(vars(w.obj)))
                    if k not in seen:
                        seen.add(k)
                        out.append((hh, w.obj))
    return out


def prepared_fixed_point(rec, x):
    o = rec.get("opts", {})
    for n, K, a in S.attr_table(rec):
        if n not in vars(x):
            continue
        v = vars(x)[n]
        try:
            if n in o.get("preparers", []) and not values_equal(G.PREPARERS[a["kind"]](copy.deepcopy(v)), v):
                return False
            if n in o.get("item_preparers", []) and a["kind"] in G.ITEM_PREPARERS:
                items = list(v.values()) if isinstance(v, dict) else list(v)
                if any(not values_equal(G.ITEM_PREPARERS[a["kind"]](copy.deepcopy(i)), i) for i in items):
                    return False
        except Exception:
            return False
    return True


def check_pool(C, rec, label, insts, hists, classes_md):
    n = len(insts)

    def eq(a, b):
        return a == b

    def case(idx):
        return {"part": "pool", "rec": rec, "histories": [[dict(o) for o in hists[i]] for i in idx], "label": label}

    def sig(kind, **kw):
        o = rec.get("opts", {})
        d = {"part": "pool", "kind": kind, "cls": rec["name"] if rec["name"].startswith("Comp") else "single",
             "attr_kinds": "+".join(a["kind"] for a in rec["attrs"])[:40], "opts": "+".join(sorted(k for k, v in o.items() if v)) or "plain"}
        d.update(kw)
        return d

    for i, x in enumerate(insts):  # first pass: repr in pool order (parents before children), before any other use
        try:
            r = x.__repr__(indent=False)
            want = [nm for nm, a in type(x).__spec_class__.attrs.items() if a.repr]
            if repr_names(r) != want:
                C.viol(violation(PROP, sig("repr_attribute_list", when="first_render"), {"repr": r[:300], "names": repr_names(r), "expected": want}, case([i])))
        except Exception as e:
            C.viol(violation(PROP, sig("repr_raised", error=type(e).__name__, when="first_render"), {"error": repr(e)[:200]}, case([i])))
    E = [[None] * n for _ in range(n)]
    for i in range(n):
        for j in range(n):
            C.inc("transitions")
            try:
                E[i][j] = bool(eq(insts[i], insts[j]))
                ne = bool(insts[i] != insts[j])
            except Exception as e:
                C.viol(violation(PROP, sig("eq_raised", error=type(e).__name__), {"error": repr(e)[:200]}, case([i, j])))
                return
            if ne == E[i][j]:
                C.viol(violation(PROP, sig("ne_inconsistent"), {"eq": E[i][j], "ne": ne}, case([i, j])))
    for i in range(n):
        if not E[i][i]:
            C.viol(violation(PROP, sig("not_reflexive"), {"repr": safe_repr(insts[i])[:200]}, case([i])))
        for j in range(n):
            if E[i][j] != E[j][i]:
                C.viol(violation(PROP, sig("not_symmetric"), {"a": safe_repr(insts[i])[:150], "b": safe_repr(insts[j])[:150], "a==b": E[i][j], "b==a": E[j][i]}, case([i, j])))
            same_cls = type(insts[i]) is type(insts[j])
            if same_cls:
                exp = expected_equal(insts[i], insts[j], type(insts[i]).__spec_class__)
                if E[i][j] != exp:
                    C.viol(violation(PROP, sig("eq_not_attribute_equality", expected=exp),
                                     {"a": safe_repr(insts[i])[:150], "b": safe_repr(insts[j])[:150], "a==b": E[i][j]}, case([i, j])))
            elif E[i][j]:
                # cross-class: equal => all compare-enabled attributes common to both are equal
                md = type(insts[i]).__spec_class__
                if not all((nm in vars(insts[i])) == (nm in vars(insts[j])) and
                           (nm not in vars(insts[i]) or values_equal(vars(insts[i])[nm], vars(insts[j])[nm]))
                           for nm, a in md.attrs.items() if a.compare):
                    C.viol(violation(PROP, sig("cross_class_equal_but_attrs_differ"), {"a": safe_repr(insts[i])[:150], "b": safe_repr(insts[j])[:150]}, case([i, j])))
            for k in range(n):
                C.inc("transitions")
                if E[i][j] and E[j][k] and not E[i][k]:
                    C.viol(violation(PROP, sig("not_transitive"), {"a": safe_repr(insts[i])[:100], "b": safe_repr(insts[j])[:100], "c": safe_repr(insts[k])[:100]}, case([i, j, k])))
    for i, x in enumerate(insts):
        C.inc("evaluations")
        md = type(x).__spec_class__
        try:
            c = copy.deepcopy(x)
            if not (c == x and x == c):
                C.viol(violation(PROP, sig("deepcopy_not_equal"), {"x": safe_repr(x)[:200], "copy": safe_repr(c)[:200]}, case([i])))
        except Exception as e:
            C.viol(violation(PROP, sig("deepcopy_raised", error=type(e).__name__), {"error": repr(e)[:200]}, case([i])))
        # reconstruction from own attribute values
        kw = {nm: attr_value(x, nm) for nm, a in md.attrs.items() if a.init and attr_value(x, nm) is not _ABSENT and nm != md.init_overflow_attr}
        noninit_default = all((nm in vars(x)) == (nm in vars(type(x)(**{k: v for k, v in kw.items() if k == md.key}))) for nm, a in md.attrs.items() if not a.init) if any(not a.init for a in md.attrs.values()) else True
        if md.key and md.key not in vars(x):
            continue  # a keyed instance whose key was deleted cannot be rebuilt through the constructor
        if not prepared_fixed_point(rec, x):
            # transform_<singular> stores f(old) as it is (C06), so a stored element need not be a fixed point of the
            # user's item preparer; the constructor then (rightly) prepares it and the rebuilt instance differs
            C.inc("reconstruction_skipped_not_a_preparer_fixed_point")
            continue
        try:
            y = type(x)(**kw)
            if noninit_default and not (y == x):
                C.viol(violation(PROP, sig("reconstruction_not_equal"), {"x": safe_repr(x)[:200], "rebuilt": safe_repr(y)[:200]}, case([i])))
        except Exception as e:
            C.viol(violation(PROP, sig("reconstruction_raised", error=type(e).__name__), {"error": repr(e)[:200], "x": safe_repr(x)[:200]}, case([i])))
        # repr
        for kwargs in ({}, {"indent": False}, {"indent": True}):
            try:
                r = x.__repr__(**kwargs) if kwargs else repr(x)
            except Exception as e:
                C.viol(violation(PROP, sig("repr_raised", error=type(e).__name__), {"error": repr(e)[:200]}, case([i])))
                continue
            if kwargs == {"indent": False}:
                want = [nm for nm, a in md.attrs.items() if a.repr]
                got = repr_names(r)
                if got != want:
                    C.viol(violation(PROP, sig("repr_attribute_list"), {"repr": r[:300], "names": got, "expected": want}, case([i])))
    C.inc("traces_validated_against_impl", n)


def safe_repr(x):
    try:
        return repr(x)
    except Exception as e:  # (a raising repr is reported by check_pool; the evidence sample must not crash on it)
        return f"<repr raised {type(e).__name__}>"


def pool_worker(task):
    C = Counter()
    rec = task["rec"]
    env = G.Env(rec)
    pool = pool_for(env, rec, task["limit"])
    insts = [o for _, o in pool]
    hists = [h for h, _ in pool]
    label = rec["name"]
    # class + its parent class (subclass family): add instances of the base class
    inh = rec.get("opts", {}).get("inherit", "none")
    if inh != "none":
        base = env.ns.get(rec["name"] + "Base") or env.ns.get(rec["name"] + "Root")
        if base is not None:
            for h in hists[:4]:
                kw = {k: env.mk(v) for k, v in h[0].get("kw", {}).items()}
                try:
                    b = base(**{k: v for k, v in kw.items() if k in base.__spec_class__.attrs})
                    insts.append(b)
                    hists.append(({"op": "new", "kw": h[0].get("kw", {}), "cls": base.__name__, "shape": "new:base"},))
                except Exception:
                    pass
    # base-class instances first: a parent is then compared / rendered strictly before its subclass
    order = sorted(range(len(insts)), key=lambda i: (type(insts[i]) is env.cls, i))
    insts, hists = [insts[i] for i in order], [hists[i] for i in order]
    C.inc("states", len(insts))
    for h in hists:
        C.nontrivial(repr(h))
    check_pool(C, rec, label, insts, hists, None)
    C.sample({"part": "pool", "class": rec["name"], "pool_size": len(insts), "reprs": [safe_repr(x)[:80] for x in insts[:4]]})
    return C.rec


# ------------------------------------------------------------------------------------------------
# (b) single-difference pairs over all declaration orders
# ------------------------------------------------------------------------------------------------
class Helper:
    def m1(self):
        return 1

    def m2(self):
        return 2


H = Helper()
FIELDS = {
    # name: (annotation source, default source, base value, alternative values)
    "i": ("int", "0", 1, [2]),
    "s": ("str", "'x'", "x", ["y"]),
    "xs": ("List[int]", "[]", [1], [[1, 2], []]),
    "cb": ("Any", "None", H.m1, [H.m2, None, 5]),
    "fn": ("Any", "None", len, [max, None]),
    "kls": ("Any", "None", int, [str, None]),
    "mod": ("Any", "None", sys, [itertools, None]),
    "hid": ("int", "Attr(default=0, compare=False, repr=False)", 0, [9]),
    # the two options are independent, in both declaration styles: shown-but-not-compared, compared-but-not-shown
    "hc": ("int", "Attr(default=0, compare=False)", 0, [9]),
    "hr": ("int", "Attr(default=0, repr=False)", 0, [9]),
    "fc": ("int", "dataclasses.field(default=0, compare=False)", 0, [9]),
    "fr": ("int", "dataclasses.field(default=0, repr=False)", 0, [9]),
    "fh": ("int", "dataclasses.field(default=0, compare=False, repr=False)", 0, [9]),
    "opt": ("Optional[int]", "None", None, [3]),
    "nd": ("int", None, 5, [6, "<omit>"]),  # no default: omitting the keyword leaves it missing
    "sb": ("Any", "None", "<selfbound>", [None, 5]),  # a method of the instance ITSELF stored in an attribute (x.sb = x.m_self)
}


NOT_COMPARED = ("hid", "hc", "fc", "fh")  # declared compare=False
REDEFAULTED = ("hid", "i", "s", "hc", "hr", "fc", "fr", "fh")  # given a new plain default by the spec subclass of variant sub_redefault
NOT_SHOWN = ("hid", "hr", "fr", "fh")  # declared repr=False


def mixed_class(order, variant="base"):
    ns = {"__name__": "verif_c10"}
    exec(compile("import dataclasses\nfrom typing import Any, List, Optional\nfrom spec_classes import spec_class, Attr\n", "<c10>", "exec", dont_inherit=True), ns)
    lines = ["@spec_class", "class Mixed:"]
    for n in order:
        ann, dflt, _, _ = FIELDS[n]
        if variant == "hid_visible" and n == "hid":
            dflt = "0"  # an ordinary attribute of the same NAME as another class' hidden one (rendered after it, in the same process)
        lines.append(f"    {n}: {ann} = {dflt}" if dflt is not None else f"    {n}: {ann}")
    lines += ["    def m_self(self):", "        return 1"]
    # spec subclasses that make the library rebuild the inherited attribute specifications: the options the
    # owner declared (compare=False, repr=False) must survive a re-default / a change of copy policy
    if variant == "sub_redefault":
        lines += ["@spec_class", "class Sub(Mixed):"] + [f"    {n} = {FIELDS[n][1] if not FIELDS[n][1].startswith(('Attr', 'dataclasses')) else '0'}" for n in order if n in REDEFAULTED]
    elif variant == "sub_dnc":
        lines += ["@spec_class(do_not_copy=True)", "class Sub(Mixed):", "    pass"]
    exec(compile("\n".join(lines) + "\n", "<c10-mixed>", "exec", dont_inherit=True), ns)
    return ns["Sub" if variant in ("sub_redefault", "sub_dnc") else "Mixed"]


def build_mixed(cls, kw):
    inst = cls(**{k: v for k, v in kw.items() if not (isinstance(v, str) and v in ("<omit>", "<selfbound>"))})
    for k, v in kw.items():
        if isinstance(v, str) and v == "<selfbound>":
            setattr(inst, k, inst.m_self)
    return inst


def single_diff_worker(task):
    C = Counter()
    for order, variant in itertools.product(task["orders"], ("base", "sub_redefault", "sub_dnc", "hid_visible")):
        if variant == "sub_redefault" and not any(n in REDEFAULTED for n in order):
            continue
        if variant == "hid_visible" and "hid" not in order:
            continue
        not_compared = tuple(n for n in NOT_COMPARED if not (variant == "hid_visible" and n == "hid"))
        hidden = tuple(n for n in NOT_SHOWN if not (variant == "hid_visible" and n == "hid"))
        cls = mixed_class(order, variant)
        C.inc("states")
        base_kw = {n: copy.copy(FIELDS[n][2]) if isinstance(FIELDS[n][2], list) else FIELDS[n][2] for n in order}
        x = build_mixed(cls, base_kw)
        C.inc("evaluations")
        try:
            cx = copy.deepcopy(x)
            same = bool(cx == x) and bool(x == cx) and ("sb" not in order or getattr(cx, "sb", None).__self__ is cx)
        except Exception as e:
            same = False
        if not same:
            C.viol(violation(PROP, {"part": "single_difference", "kind": "deepcopy_not_equal", "variant": variant, "has_selfbound": "sb" in order},
                             {"x": safe_repr(x)[:200], "copy": safe_repr(cx)[:200] if "cx" in dir() else None},
                             {"part": "single_difference", "order": list(order), "attr": order[0], "alt": repr(FIELDS[order[0]][3][0]), "variant": variant}))
        rn = repr_names(x.__repr__(indent=False))
        if rn != [n for n in order if n not in hidden]:
            C.viol(violation(PROP, {"part": "single_difference", "kind": "repr_attribute_list", "variant": variant},
                             {"names": rn, "expected": [n for n in order if n not in hidden]},
                             {"part": "single_difference", "order": list(order), "attr": order[0], "alt": repr(FIELDS[order[0]][3][0]), "variant": variant}))
        for pos, n in enumerate(order):
            for alt in FIELDS[n][3]:
                kw = dict(base_kw)
                kw[n] = alt
                y = build_mixed(cls, kw)
                C.inc("transitions")
                C.inc("evaluations")
                exp = (n in not_compared)
                try:
                    got1, got2 = bool(x == y), bool(y == x)
                    ne = bool(x != y)
                except Exception as e:
                    C.viol(violation(PROP, {"part": "single_difference", "kind": "eq_raised", "attr": n, "error": type(e).__name__, "variant": variant},
                                     {"error": repr(e)[:200]}, {"part": "single_difference", "order": list(order), "attr": n, "alt": repr(alt), "variant": variant}))
                    continue
                before = [FIELDS[m][0] for m in order[:pos]]
                after_method = any(m in ("cb",) for m in order[:pos])
                if got1 != exp or got2 != exp or ne == got1:
                    C.viol(violation(PROP, {"part": "single_difference", "kind": "differing_attribute_ignored" if exp is False else "compare_false_attribute_compared",
                                            "attr": n, "after_bound_method_attr": after_method, "alt": "missing" if alt == "<omit>" else type(alt).__name__, "variant": variant},
                                     {"order": list(order), "position": pos, "x==y": got1, "y==x": got2, "x!=y": ne, "x": repr(x)[:200], "y": repr(y)[:200]},
                                     {"part": "single_difference", "order": list(order), "attr": n, "alt": repr(alt), "variant": variant}))
                else:
                    C.inc("traces_validated_against_impl")
                    C.nontrivial((tuple(order), n, repr(alt), variant))
    C.sample({"part": "single_difference", "order": list(task["orders"][0])})
    return C.rec


# ------------------------------------------------------------------------------------------------
# (d) comparisons that are aborted by a raising attribute __eq__: a later comparison of the same objects is unaffected
# ------------------------------------------------------------------------------------------------
ABORT_SRC = '''
from typing import Any
from spec_classes import spec_class
ARM = {"on": False}

class Flaky:
    def __init__(self, v):
        self.v = v
    def __eq__(self, other):
        if ARM["on"]:
            raise RuntimeError("comparison fails")
        return isinstance(other, Flaky) and self.v == other.v
    def __ne__(self, other):
        return not self.__eq__(other)
    __hash__ = None

@spec_class
class E:
    a: Any = None
    count: int = 0
'''
ABORT_OPS = ["eq_xy_armed", "eq_yx_armed", "eq_xy", "eq_yx", "ne_xy", "make_equal", "make_different"]


def abort_case(seq):
    ns = {"__name__": "verif_c10_abort"}
    exec(compile(ABORT_SRC, "<c10-abort>", "exec", dont_inherit=True), ns)
    E, Flaky, ARM = ns["E"], ns["Flaky"], ns["ARM"]
    x, y = E(a=Flaky(1), count=1), E(a=Flaky(1), count=2)
    probs = []
    for i, op in enumerate(seq):
        want_eq = x.count == y.count
        try:
            if op.endswith("_armed"):
                ARM["on"] = True
                try:
                    (x == y) if op.startswith("eq_xy") else (y == x)
                    probs.append(f"step {i} {op}: the raising attribute comparison was swallowed")
                except RuntimeError:
                    pass
                finally:
                    ARM["on"] = False
            elif op == "eq_xy":
                if bool(x == y) != want_eq:
                    probs.append(f"step {i}: x == y is {x == y} although count {x.count} vs {y.count}")
            elif op == "eq_yx":
                if bool(y == x) != want_eq:
                    probs.append(f"step {i}: y == x is {y == x} although count {x.count} vs {y.count}")
            elif op == "ne_xy":
                if bool(x != y) != (not want_eq):
                    probs.append(f"step {i}: x != y is {x != y} although count {x.count} vs {y.count}")
            elif op == "make_equal":
                y.count = x.count
            elif op == "make_different":
                y.count = x.count + 1
        except Exception as e:
            probs.append(f"step {i} {op}: raised {type(e).__name__}")
    return probs


def abort_worker(task):
    C = Counter()
    for r in (1, 2, 3):
        for seq in itertools.product(ABORT_OPS, repeat=r):
            if not any(o.endswith("_armed") for o in seq):
                continue
            probs = abort_case(seq)
            C.inc("states")
            C.inc("transitions", len(seq))
            C.inc("evaluations")
            if probs:
                C.viol(violation(PROP, {"part": "aborted_comparison", "kind": "comparison_depends_on_an_earlier_aborted_one", "first": seq[0], "length": len(seq)},
                                 {"problems": probs[:3], "sequence": list(seq)}, {"part": "aborted_comparison", "sequence": list(seq)}))
            else:
                C.inc("traces_validated_against_impl")
                C.nontrivial(("abort", seq))
    C.sample({"part": "aborted_comparison", "ops": ABORT_OPS})
    return C.rec


# ------------------------------------------------------------------------------------------------
# (c) repr of self-referential structures / missing values
# ------------------------------------------------------------------------------------------------
def selfref_worker(task):
    C = Counter()
    ns = {"__name__": "verif_c10"}
    src = '''
from typing import Any, List, Dict
from spec_classes import spec_class, Attr
from spec_classes.types import KeyedList, KeyedSet
@spec_class
class Node:
    name: str
    anyv: Any = None
    kids: List[Any] = []
    table: Dict[str, Any] = {}
    nope: int
@spec_class(key="name")
class KNode:
    name: str
    peer: Any = None
@spec_class(key="name")
class SNode:
    name: str
    peers: KeyedSet["SNode", str] = Attr(default_factory=KeyedSet)
    chain: KeyedList["SNode", str] = Attr(default_factory=KeyedList)
@spec_class
class URepr:
    x: int = 0
    def __repr__(self):          # a user-written repr that takes no rendering options
        return "URepr!"
'''
    exec(compile(src, "<c10-selfref>", "exec", dont_inherit=True), ns)
    Node, KNode = ns["Node"], ns["KNode"]

    def build(kind):
        a = Node(name="a")
        if kind == "direct":
            a.anyv = a
        elif kind == "in_list":
            a.kids = [a, 1]
        elif kind == "in_any_list":
            a.anyv = [a]
        elif kind == "in_dict":
            a.table = {"me": a}
        elif kind == "mutual":
            b = Node(name="b", anyv=a)
            a.anyv = b
        elif kind == "mutual_keyed":
            a = KNode("a")
            b = KNode("b", peer=a)
            a.peer = b
        elif kind == "triangle":
            b = Node(name="b")
            c = Node(name="c", anyv=a)
            b.anyv = c
            a.anyv = b
        elif kind == "list_in_itself":
            a.kids.append(a.kids)  # builtin repr: [[...]]
        elif kind == "dict_in_itself":
            a.table["me"] = a.table
        elif kind == "list_in_itself_long":
            a = Node(name="n" * 120)  # long enough for repr() itself to switch to the multi-line layout
            a.kids.append(a.kids)
        elif kind == "list_dict_cycle":
            a.kids.append(a.table)
            a.table["k"] = a.kids
        elif kind in ("mutual_through_keyedset", "self_in_keyedset", "mutual_through_keyedlist", "self_in_keyedlist"):
            SNode = ns["SNode"]
            a, b = SNode("a"), SNode("b")
            attr = "peers" if "keyedset" in kind else "chain"
            add = (lambda c, x: c.add(x)) if "keyedset" in kind else (lambda c, x: c.append(x))
            if kind.startswith("mutual"):
                add(getattr(a, attr), b)
                add(getattr(b, attr), a)
            else:
                add(getattr(a, attr), a)
        elif kind == "spec_class_as_value":
            a.anyv = KNode               # the CLASS object itself (it has __spec_class__ and a __repr__ too)
        elif kind == "spec_classes_in_list":
            a.kids = [KNode, Node, int]
        elif kind == "nested_user_repr":
            a.anyv = ns["URepr"]()
            a.kids = [ns["URepr"](x=1)]
        elif kind == "missing_values":
            a = Node()
        elif kind == "bound_method_of_self":
            a.anyv = a.with_name
        elif kind == "bound_method_of_other":
            a.anyv = Node(name="o").with_name
        return a

    for kind in ("direct", "in_list", "in_any_list", "in_dict", "mutual", "mutual_keyed", "triangle", "list_in_itself", "dict_in_itself",
                 "list_in_itself_long", "list_dict_cycle", "mutual_through_keyedset", "self_in_keyedset", "mutual_through_keyedlist",
                 "self_in_keyedlist", "spec_class_as_value", "spec_classes_in_list", "nested_user_repr", "missing_values",
                 "bound_method_of_self", "bound_method_of_other"):
        for kwargs in ({}, {"indent": True}, {"indent": False}, {"compact": True}):
            C.inc("states")
            C.inc("transitions")
            C.inc("evaluations")
            x = build(kind)
            try:
                r = x.__repr__(**kwargs) if kwargs else repr(x)
                assert isinstance(r, str)
                C.inc("traces_validated_against_impl")
                C.nontrivial((kind, repr(kwargs)))
            except BaseException as e:
                C.viol(violation(PROP, {"part": "selfref", "kind": "repr_raised", "structure": kind, "error": type(e).__name__},
                                 {"error": repr(e)[:200], "kwargs": kwargs}, {"part": "selfref", "structure": kind, "kwargs": kwargs}))
    C.sample({"part": "selfref", "structures": 21})
    return C.rec


def work(task):
    return {"pool": pool_worker, "single": single_diff_worker, "selfref": selfref_worker, "abort": abort_worker}[task["part"]](task)


def run_case(case):
    if case["part"] == "aborted_comparison":
        probs = abort_case(tuple(case["sequence"]))
        seq = case["sequence"]
        return [violation(PROP, {"part": "aborted_comparison", "kind": "comparison_depends_on_an_earlier_aborted_one", "first": seq[0], "length": len(seq)},
                          {"problems": probs[:3], "sequence": list(seq)}, case)] if probs else []
    if case["part"] == "pool":
        rec = case["rec"]
        sub = pool_worker({"rec": rec, "limit": 12})
        want = json_key(case["histories"])
        return [v for v in sub["violations"] if json_key(v["case"]["histories"]) == want]
    if case["part"] == "single_difference":
        sub = single_diff_worker({"orders": [tuple(case["order"])]})
        return [v for v in sub["violations"] if v["case"]["attr"] == case["attr"] and v["case"]["alt"] == case["alt"]
                and v["case"].get("variant", "base") == case.get("variant", "base")]
    sub = selfref_worker({})
    return [v for v in sub["violations"] if v["case"]["structure"] == case["structure"] and v["case"]["kwargs"] == case["kwargs"]]


def json_key(x):
    import json

    from mc.common import jsonable

    return json.dumps(jsonable(x), sort_keys=True)


def main(run):
    quick = run.tier == "quick"
    recs = G.quick_family() if quick else G.full_family()
    recs = list(recs) + [
        # dependant declared BEFORE the attribute that invalidates it
        G.composite("CompInvRev", [("str", "lit"), ("int", "lit"), ("nums", "mut")], invalidated_by={"s": ["v"]}),
        G.composite("CompInvRevNoDefault", [("str", "lit"), ("float", "lit"), ("int", "none")], invalidated_by={"s": ["v"], "f": ["s"]}),
    ]
    from props.c07 import alias_records

    recs += alias_records()  # Alias attributes: a local override is part of the instance's state (copied, compared, rendered)
    tasks = [{"part": "pool", "rec": r, "limit": 8 if quick else 12} for r in recs if r.get("opts", {}).get("do_not_copy") is not True]
    names = ["i", "cb", "s", "hid", "fn"] if quick else ["i", "cb", "s", "hid", "fn", "xs"]
    orders = list(itertools.permutations(names))
    extra = [("cb", "mod", "kls", "i"), ("mod", "cb", "i", "opt"), ("kls", "i", "cb", "xs", "hid"), ("opt", "cb", "mod", "s"),
             ("nd", "cb", "i"), ("cb", "nd", "s"), ("i", "cb", "hid", "nd"), ("sb", "i", "xs"), ("i", "sb", "cb"), ("xs", "hid", "sb"),
             ("i", "hc", "hr", "s"), ("fc", "i", "fr"), ("fr", "cb", "fc", "s"), ("hr", "fc", "i", "hc", "fr"), ("fh", "i", "fr", "fc"), ("s", "fh", "hid")]
    orders += extra
    for i in range(0, len(orders), 12):
        tasks.append({"part": "single", "orders": orders[i:i + 12]})
    tasks.append({"part": "selfref"})
    tasks.append({"part": "abort"})
    for rec in pmap(work, tasks):
        run.merge(rec)
    run.add(rule=(
        "(a) per class: pool of <= 8/12 canonical reachable states (+ base-class instances for subclass families), all ordered "
        "pairs and triples; (b) every permutation of 5/6 mixed-kind attributes (int, bound method, str, compare=False, function, list) "
        "+ 4 extra orders with module/class/Optional values x every attribute position x every alternative value (incl. missing); (c) 10 "
        "self-referential / missing-value structures x 4 repr modes; states = instances/classes, transitions = comparisons"
    ))
    run.assumptions += [
        "bound-method attribute values are either the identical object or differ in function (same function bound to different objects is not judged)",
        "for cross-class pairs only symmetry, transitivity and 'equal => compare-enabled attributes equal' are demanded",
        "equality of self-referential instances is not demanded (only repr)",
    ]
