"""
C08 — instances share no mutable state with defaults, constructor arguments or peers; reset is fresh.

E1 over classes covering every way of declaring a default (literal, mutable literal, Attr(default=),
Attr(default_factory=), dataclasses.field(default / default_factory), override in a spec subclass,
override in a plain subclass).  Histories mix construction of up to three live instances, in-place
mutation at every depth (scalar helpers, element helpers, nested keyword updates, assignment),
reset_<attr>, reset, del.  Oracles after every operation:
 (1) every class-level default object, every constructor-argument object and every instance other
     than the receiver of the call is observably unchanged;
 (2) no instance shares a mutable node with class defaults, constructor arguments or a peer
     (values of do_not_copy attributes excepted);
 (3) after reset_<attr> / del / reset the attribute equals what a freshly constructed instance of
     the same class holds (missing iff the fresh one is missing) and shares nothing with it.
"""
from __future__ import annotations

from mc import explore, grammar as G, snap
from mc import spec_ops as S
from mc.common import pmap
from props.c04 import class_defaults

PROP = "C08"


def dnc_names(rec):
    d = rec.get("opts", {}).get("do_not_copy")
    out = list(d) if isinstance(d, list) else []
    return out + [G.attr_name(a) for a in rec["attrs"] if a.get("default") == "attr_dnc" and G.attr_name(a) not in out]


class Oracle:
    faults = ()

    def __init__(self, task):
        self.task = task
        self.quick = task.get("tier") == "quick"

    def applies(self, rec):
        o = rec.get("opts", {})
        return not o.get("frozen") and o.get("do_not_copy") is not True

    def profile(self, rec):
        return {"inplace": (True,), "invalid": False, "raising": False, "ctor": False, "deepcopy": False,
                "sentinels": False, "iffalse": False, "small": True, "foreign_containers": True}

    def gen_ops(self, rec, world, P):
        ops = []
        for t in range(len(world.objs)):
            w1 = S.World(world.env)
            w1.objs = [world.objs[t]]
            for op in S.gen_ops(rec, w1, P):
                if S.is_inplace(op):
                    ops.append(dict(op, t=t))
        if len(world.objs) < (2 if self.quick else 3):
            for shape, kw in S.ctor_kwargs_variants(rec, dict(P, invalid=False)):
                ops.append({"op": "new", "kw": kw, "shape": shape})
        return ops

    def checked(self, op):
        return True

    def pre(self, ctx):
        w = ctx.world
        t = ctx.op.get("t", 0) if ctx.op["op"] != "new" else None
        roots = {}
        for i, o in enumerate(w.objs):
            if i != t:
                roots[f"peer{i}"] = o
        by_reference = set()  # objects held through do_not_copy attributes: carried by identity BY DESIGN (C02), caller's object included
        for o in w.objs:
            for n in dnc_names(ctx.rec):
                if n in vars(o):
                    by_reference.update(snap.reachable_mutable(vars(o)[n]))
        for i, a in enumerate(w.ctor_args):
            if id(a) not in by_reference:
                roots[f"ctor_arg{i}"] = a
        roots.update(class_defaults(ctx.env))
        ctx.store["roots"] = roots
        ctx.store["each"] = {n: snap.canon([o]) for n, o in roots.items()}
        ctx.store["pre_done"] = True

    def post(self, ctx, out):
        v = []
        env, rec, w = ctx.env, ctx.rec, ctx.world
        # (1) bystanders unchanged
        for n, o in ctx.store["roots"].items():
            c = snap.canon([o])
            if c != ctx.store["each"][n]:
                what = "peer" if n.startswith("peer") else ("ctor_arg" if n.startswith("ctor_arg") else "class_default")
                v.append(explore.violation(PROP, ctx.sig("bystander_changed", what=what),
                                           {"root": n, "before": repr(ctx.store["each"][n])[:300], "after": repr(c)[:300],
                                            "outcome": out.brief()}, ctx.case()))
                break
        # (2) no sharing
        dnc = dnc_names(rec)
        defaults = class_defaults(env)
        others = {}
        for n, o in defaults.items():
            for i, x in snap.reachable_mutable(o).items():
                others[i] = ("class_default", n)
        for k, a in enumerate(w.ctor_args):
            for i, x in snap.reachable_mutable(a).items():
                others.setdefault(i, ("ctor_arg", k))
        insts = list(w.objs)
        if out.result is not None and isinstance(out.result, env.cls) and not any(out.result is i for i in insts):
            insts.append(out.result)
        reach = []
        for inst in insts:
            r = snap.reachable_mutable(inst)
            for n in dnc:
                if n in vars(inst):
                    for i in snap.reachable_mutable(vars(inst)[n]):
                        r.pop(i, None)
            reach.append(r)
        for a in range(len(insts)):
            hit = [(i, others[i]) for i in reach[a] if i in others]
            if hit:
                i, (what, n) = hit[0]
                v.append(explore.violation(PROP, ctx.sig("shares_mutable_state", with_=what, node=type(reach[a][i]).__name__),
                                           {"with": f"{what}:{n}", "node": repr(reach[a][i])[:80]}, ctx.case()))
                break
            for b in range(a + 1, len(insts)):
                common = [i for i in reach[a] if i in reach[b] and i != id(insts[a]) and i != id(insts[b])]
                if common:
                    v.append(explore.violation(PROP, ctx.sig("shares_mutable_state", with_="peer", node=type(reach[a][common[0]]).__name__),
                                               {"node": repr(reach[a][common[0]])[:80]}, ctx.case()))
                    break
        # (3) reset / del restore what a fresh instance holds
        op = ctx.op
        if not out.raised and (op["op"] == "del" or (op["op"] == "call" and (op["m"] == "reset" or op["m"].startswith("reset_")))):
            recv = out.receiver
            names = [G.attr_name(a) for a in rec["attrs"]]
            if op["op"] == "del":
                names = [op["attr"]]
            elif op["m"] != "reset":
                names = [op["m"][len("reset_"):]]
            key = rec.get("opts", {}).get("key")
            G.CB.reset()
            try:
                kw = {key: vars(recv)[key]} if key and key in vars(recv) else {}
                fresh = type(recv)(**kw)
            except Exception as e:  # a class that cannot be default-constructed: nothing to compare with
                fresh = None
            if fresh is not None:
                for n in names:
                    if n == key:
                        continue
                    have, want = vars(recv).get(n, "<missing>"), vars(fresh).get(n, "<missing>")
                    if snap.canon([have]) != snap.canon([want]):
                        mode = next((a.get("default", "none") for a in rec["attrs"] if G.attr_name(a) == n), "?")
                        v.append(explore.violation(PROP, ctx.sig("reset_not_fresh_default", default_mode=mode),
                                                   {"attr": n, "after_reset": repr(have)[:100], "fresh_instance_has": repr(want)[:100]},
                                                   ctx.case()))
                        break
        elif out.raised and op["op"] in ("del",) or (out.raised and op["op"] == "call" and op["m"].startswith("reset_")):
            # allowed only for an attribute that is already missing and has no default (python's del semantics)
            if out.family() != "AttributeError":
                v.append(explore.violation(PROP, ctx.sig("reset_raised", got=out.family()), {"outcome": out.brief()}, ctx.case()))
            else:
                n = op.get("attr") or op["m"][len("reset_"):]
                G.CB.reset()
                try:
                    key = rec.get("opts", {}).get("key")
                    recv = out.receiver
                    kw = {key: vars(recv)[key]} if key and key in vars(recv) else {}
                    fresh = type(recv)(**kw)
                    if n in vars(fresh) or n in vars(recv):
                        v.append(explore.violation(PROP, ctx.sig("reset_raised", got="AttributeError"),
                                                   {"outcome": out.brief(), "fresh_has": repr(vars(fresh).get(n, '<missing>'))[:80]}, ctx.case()))
                except Exception:
                    pass
        return v


def make_oracle(task):
    return Oracle(task)


def run_case(case):
    if case.get("part") == "overflow":
        from mc.common import violation

        probs = overflow_case(case["where"], case["depth"], case["declared"], case["bootstrap"], case["via"])
        return [violation(PROP, {"part": "overflow", "where": case["where"], "depth": case["depth"], "declared": case["declared"],
                                 "bootstrap": case["bootstrap"], "kind": "overflow_argument_shared"}, {"problems": probs[:3]}, case)] if probs else []
    return explore.replay_case(case, "props.c08")


def family(tier):
    recs = []
    seen = set()

    def add(r):
        if r["name"] not in seen:
            seen.add(r["name"])
            recs.append(r)

    kinds = G.ALL_KINDS
    for k in kinds:
        for m in G.DEFAULT_MODES:
            if G.valid_single(k, m) and (tier != "quick" or m in ("mut", "attr_factory", "lit", "field_factory") or k in ("nums", "leaf", "int")):
                add(G.single(k, m))
    inh_kinds = ["int", "nums", "leaf", "scores", "grids"] if tier == "quick" else kinds  # grids: a re-default holding a NESTED mutable element
    for k in inh_kinds:
        base = "mut" if "mut" in G.KINDS[k] else "lit"
        for inh in ("spec_sub_redefault", "plain_sub_redefault"):
            add(G.single(k, base, inherit=inh))
            add(G.single(k, "attr_factory", inherit=inh))
    for r in G.COMPOSITES:
        add(r)
    for r in G.policy_inheritance_records() + G.base_first_records():
        add(r)
    # a bootstrapped subclass with the opposite copy policy must not change how the parent treats its arguments / defaults
    add(G.single("nums", "mut", flip_sub=True))
    add(G.single("leaf", "mut", flip_sub=True))
    add(G.single("scores", "attr_factory", flip_sub=True))
    # defaults that the attribute's preparer changes: a reset value must equal what a new instance holds
    add(G.single("words", "mut", preparers=["words"]))
    add(G.single("words", "mut", item_preparers=["words"]))
    add(G.single("labels", "mut", item_preparers=["labels"]))
    # init=False attributes: the value lives on the class until an instance gets its own
    for k in (["nums", "leaf", "scores", "kids"] if tier == "quick" else [k for k in kinds if "mut" in G.KINDS[k]]):
        add(G.single(k, "attr_noinit"))
    return recs


# ------------------------------------------------------------------------------------------------
# constructor arguments that do not land in an attribute of their own: the overflow attribute
# ------------------------------------------------------------------------------------------------
OVERFLOW_SRC = """
@spec_class(init_overflow_attr="extra"{boot})
class Base:
    a: int = 1
{declared}
@spec_class{boot2}
class SpecSub(Base):
    b: int = 2

class PlainSub(Base):
    pass
"""


def overflow_case(where, depth, declared, bootstrap, via):
    """-> list of problems.  One mutable object is handed to two constructor calls as an UNKNOWN keyword; then the
    first instance's copy of it is edited in place (outer list / inner list)."""
    import typing

    from spec_classes import Attr, spec_class

    ns = {"spec_class": spec_class, "Attr": Attr, "Dict": typing.Dict, "Any": typing.Any}
    src = OVERFLOW_SRC.format(boot=", bootstrap=True" if bootstrap else "", boot2="(bootstrap=True)" if bootstrap else "",
                              declared="    extra: Dict[str, Any]\n" if declared else "")
    exec(compile(src, "<c08-overflow>", "exec", dont_inherit=True), ns)
    cls = ns[where]
    payload = [[1], 1]
    if via == "ctor":
        o, peer = cls(p=payload), cls(p=payload)
    else:  # the same route through a nested constructor call of a helper: update(...) is not a constructor and is left out
        o, peer = cls(**{"p": payload, "a": 5}), cls(p=payload, q=payload)
    probs = []
    if snap.shared_mutable({"o": o}, {"arg": payload}):
        probs.append("instance shares a mutable object with its constructor argument")
    if snap.shared_mutable({"o": o}, {"peer": peer}):
        probs.append("two instances built from the same argument share a mutable object")
    got = o.extra["p"]
    (got if depth == "outer" else got[0]).append(9)
    if payload != [[1], 1]:
        probs.append(f"constructor argument changed by an in-place edit of the instance: {payload!r}")
    if peer.extra["p"] != [[1], 1]:
        probs.append(f"peer changed by an in-place edit of the instance: {peer.extra['p']!r}")
    return probs


def overflow_worker(task):
    from mc.common import Counter, violation
    import itertools

    C = Counter()
    for where, depth, declared, bootstrap, via in itertools.product(("Base", "SpecSub", "PlainSub"), ("outer", "inner"), (False, True), (False, True), ("ctor", "ctor2")):
        case = {"part": "overflow", "where": where, "depth": depth, "declared": declared, "bootstrap": bootstrap, "via": via}
        try:
            probs = overflow_case(where, depth, declared, bootstrap, via)
        except Exception as e:  # the scenario itself must be constructible
            probs = [f"scenario raised {e!r}"]
        C.inc("states")
        C.inc("transitions")
        C.inc("evaluations")
        if probs:
            C.viol(violation(PROP, {"part": "overflow", "where": where, "depth": depth, "declared": declared, "bootstrap": bootstrap,
                                    "kind": "overflow_argument_shared"}, {"problems": probs[:3]}, case))
        else:
            C.inc("traces_validated_against_impl")
            C.nontrivial((where, depth, declared, bootstrap, via))
    C.sample({"part": "overflow", "classes": ["Base", "SpecSub", "PlainSub"], "edit": ["outer", "inner"]})
    return C.rec


def dispatch(task):
    return overflow_worker(task) if task.get("part") == "overflow" else explore.explore_class(task)


def main(run):
    quick = run.tier == "quick"
    tasks = [{"part": "overflow"}]
    for rec in family(run.tier):
        comp = len(rec["attrs"]) > 1
        tasks.append({"rec": rec, "depth": (1 if comp else 2) if quick else (2 if comp else 3), "module": "props.c08", "prop": PROP,
                      "tier": run.tier, "inits": 2 if quick else 4, "max_states": 300 if quick else 3000, "line_fault_depth": -1})
    for rec in pmap(dispatch, tasks):
        run.merge(rec)
    run.add(rule=(
        "(overflow part: one mutable object handed to two constructor calls as an unknown keyword of a class with an overflow attribute - "
        "declared or not, lazy or eager, the class itself / a spec subclass / a plain subclass -, then edited through the first instance at "
        "either depth) + BFS over histories of construction (up to 2/3 live instances), in-place scalar / element / nested-keyword mutation of any "
        "live instance, assignment, del, reset_<attr>, reset; every kind x every default mode + spec- and plain-subclass overrides; "
        "three oracles after every transition (bystanders unchanged, no sharing with defaults / constructor arguments / peers, "
        "reset equals a fresh instance); non-trivial = raises or changes the state"
    ))
    run.assumptions += [
        "reset_<attr>/del of an attribute that is already missing and has no default may raise AttributeError (it stays missing)",
        "an object assigned with obj.attr = value (not through the constructor) is handed over by the caller and may be shared with the caller",
    ]
