"""
C06 — element helpers edit list/dict/set attributes like the plain container operation.

E1 per collection attribute kind (List[int], List[str], Dict[str,int], Set[int], Set[str],
List[Leaf], Dict[str,Leaf], List[Keyed], Dict[str,Keyed], KeyedList[Keyed,str], KeyedSet[Keyed,str];
with / without item preparer; missing and defaulted container): states are container contents
reachable by element operations (length <= bound); from every state every element helper with
every addressing mode is executed (copy-on-write AND in place) and the resulting content is
compared with the plain list / dict / set operation applied to a copy of the previous content.
The reference never calls library code except deepcopy of items; it starts each transition from
the real pre-content (public iteration only).
"""
from __future__ import annotations

import copy

from mc import explore, grammar as G, snap
from mc import spec_ops as S
from mc.common import Counter, pmap, violation

PROP = "C06"
MISSING_C = "<missing>"

UNIVERSE = {
    "lits": ["a", "b"], "grids": [["list", [1]], ["list", []]],
    "nums": [0, 1, 2, True], "words": ["", "a", "b"], "tags": [0, 1, 2, True], "labels": ["", "a", "b"], "scores": [0, 1, 2],
    "kids": [["Leaf", {}], ["Leaf", {"x": 1}]], "pairs": [["Leaf", {}], ["Leaf", {"x": 1}]],
    "fkids": [["Leaf", {}], ["Leaf", {"x": 1}]],       # frozen elements (built as FLeaf: opts leaf_is_frozen)
    "invs": [["Inv", {}], ["Inv", {"x": 1, "d": 9}]],  # elements with derived state that a keyword edit of x resets
    "units": [["Keyed", {"key": "a"}], ["Keyed", {"key": "b", "n": 1}], ["Keyed", {"key": "c"}]],
    "parts": [["Keyed", {"key": "a"}], ["Keyed", {"key": "b", "n": 1}]],
    "links": [["Keyed", {"key": "a"}], ["Keyed", {"key": "b", "n": 1}], ["Keyed", {"key": "c"}]],
    "marks": [["Keyed", {"key": "a"}], ["Keyed", {"key": "b", "n": 1}], ["Keyed", {"key": "a", "n": 2}]],
}
KEYS = {"scores": ["", "a", "b"], "pairs": ["a", "b"], "parts": ["a", "b"]}
EXTRA_FOR_PREPARER = {"nums": [7], "tags": [7], "scores": [7], "words": [], "labels": []}


def FN(n):
    return ["fn", n]


def gen_ops(kind, K, ln, with_prep, small):
    """all element-helper calls for a container of current length ln"""
    it = K["item"]
    U = list(UNIVERSE[kind]) + (EXTRA_FOR_PREPARER.get(kind, []) if with_prep else [])
    ops = []
    nested = K.get("nested_item")

    def call(m, shape, *a, **kw):
        ops.append({"op": "call", "m": f"{m}_{it}", "args": list(a), "kw": kw, "shape": shape})

    if kind in G.SEQ_KINDS:
        idx = list(range(-ln - 1, ln + 2))
        for x in U:
            call("with", "with:append", x)
            call("with", "with:insert_no_index", x, _insert=True)  # no position given: appended, insert or not
            for i in idx:
                call("with", "with:index", x, _index=i)
                call("with", "with:insert", x, _index=i, _insert=True)
        for i in idx:
            call("transform", "transform:by_index", i, FN("inc"), _by_index=True)
            call("without", "without:by_index", i, _by_index=True)
            call("update", "update:by_index", i, U[-1], _by_index=True)
            if kind in ("words", "kids", "units", "links"):
                # an int is not of the element type -> addressed by index by default
                call("transform", "transform:default_index", i, FN("inc"))
                call("without", "without:default_index", i)
                call("update", "update:default_index", i, U[0])
                # ... unless the caller says otherwise: an explicit _by_index=False is a request to address BY VALUE, and
                # an int is no element of such a list (plain `list.remove(1)` -> ValueError)
                call("transform", "transform:by_value_nonitem", i, FN("inc"), _by_index=False)
                call("without", "without:by_value_nonitem", i, _by_index=False)
                call("update", "update:by_value_nonitem", i, U[0], _by_index=False)
        for x in U:
            for bi, tag in ((None, "default_value"), (False, "by_value")):
                kw = {} if bi is None else {"_by_index": False}
                call("transform", f"transform:{tag}", x, FN("inc"), **kw)
                call("without", f"without:{tag}", x, **kw)
                call("update", f"update:{tag}", x, U[0], **kw)
        if nested:
            kwn = {"x": 3} if nested != "Keyed" else {"key": "k", "n": 3}
            call("with", "with:kw", **kwn)
            fld = "x" if nested != "Keyed" else "n"
            if ln and kind not in ("links",):
                # the same object at several positions: later edits of one position must not show at the others
                call("with", "with:alias_existing", ["elem", 0])
                call("with", "with:alias_existing_insert", ["elem", ln - 1], _index=0, _insert=True)
            # an element BUILT from keywords put at a position: whatever sits there (or next to it) contributes nothing
            kwo = {"key": "k", "zs": ["list", [4]]} if nested == "Keyed" else ({"d": 9} if kind == "invs" else {"ys": ["list", [4]]})
            for i in idx:
                call("with", "with:kw_at_index", _index=i, **kwo)
                call("with", "with:kw_insert_at_index", _index=i, _insert=True, **kwo)
            for i in idx:
                call("update", "update:kw_by_index", i, _by_index=True, **{fld: 4})
                call("transform", "transform:attrfn_by_index", i, _by_index=True, **{fld: FN("inc")})
            if nested == "Keyed":
                call("with", "with:bare_key", "k")
                if kind == "links":
                    for key in ("a", "b", "zz"):
                        call("update", "update:by_key_kw", key, n=5)
                        call("transform", "transform:by_key", key, n=FN("inc"))
                        call("without", "without:by_key", key)
                        call("with", "with:index_key", U[0], _index=key)
    elif kind in G.MAP_KINDS:
        for k in KEYS[kind]:
            for x in U:
                call("with", "with:kv", k, x)
            call("update", "update:kv", k, U[-1])
            call("transform", "transform:key", k, FN("inc"))
            call("without", "without:key", k)
            if nested:
                fld = "x" if nested != "Keyed" else "n"
                kwn = {"x": 3} if nested != "Keyed" else {"key": "k", "n": 3}
                call("with", "with:kw", k, **kwn)
                call("update", "update:kw", k, **{fld: 4})
                call("transform", "transform:attrfn", k, **{fld: FN("inc")})
                if nested == "Keyed":
                    call("with", "with:bare_key", k, "k")
    else:
        for x in U:
            call("with", "with:add", x)
            call("transform", "transform:value", x, FN("inc"))
            call("without", "without:value", x)
            call("update", "update:value", x, U[0])
        if nested:
            call("with", "with:kw", key="k", n=3)
            call("with", "with:bare_key", "k")
            for key in ("a", "b", "zz"):
                call("update", "update:by_key_kw", key, n=4)
                call("transform", "transform:by_key", key, n=FN("inc"))
                call("without", "without:by_key", key)
    return ops


# ------------------------------------------------------------------------------------------------
# reference
# ------------------------------------------------------------------------------------------------
class Expect(Exception):
    def __init__(self, *fams):
        self.fams = set(fams)


def plainify(kind, c):
    """real container -> plain python container of deep-copied items (public iteration only)"""
    if c is MISSING_C:
        return MISSING_C
    if kind in G.SEQ_KINDS:
        return [copy.deepcopy(x) for x in c]
    if kind in G.MAP_KINDS:
        return {k: copy.deepcopy(v) for k, v in c.items()}
    if kind == "marks":
        return {k: copy.deepcopy(v) for k, v in c.items()}
    return {copy.deepcopy(x) for x in c}


def item_conforms(kind, x, env):
    if kind == "lits":
        return isinstance(x, str) and x in ("a", "b")
    if kind == "grids":
        return isinstance(x, list) and all(isinstance(y, int) for y in x)
    if kind in ("nums", "tags", "scores"):
        return isinstance(x, int)
    if kind in ("words", "labels"):
        return isinstance(x, str)
    if kind in ("kids", "pairs"):
        return isinstance(x, env.Leaf)
    if kind == "fkids":
        return isinstance(x, env.FLeaf)
    if kind == "invs":
        return isinstance(x, env.ns["Inv"])
    return isinstance(x, env.Keyed)


def prep_item(kind, x, env, with_prep):
    if with_prep and kind in G.ITEM_PREPARERS:
        x = G.ITEM_PREPARERS[kind](x)
    if kind in ("units", "parts", "links", "marks") and isinstance(x, str):
        x = env.Keyed(x)
    return x


def keyof(x):
    return x.key


def ref_apply(kind, env, content, op, with_prep):
    """expected plain content after op (or raises Expect(families)).  `content` is a fresh plain
    copy and may be edited."""
    m = op["m"].split("_")[0]
    args = [(content[a[1]] if isinstance(a, list) and a and a[0] == "elem" else env.mk(a)) for a in op["args"]]
    kw = {k: env.mk(v) for k, v in op["kw"].items()}
    flags = {k: kw.pop(k) for k in list(kw) if k.startswith("_")}
    c = content
    created = c is MISSING_C
    nested = G.KINDS[kind].get("nested_item")

    def build_from_kw(base=None):
        if base is None:
            if nested == "Inv":
                return env.ns["Inv"](**kw)
            if nested == "Leaf" and kind == "fkids":
                return env.FLeaf(**kw)
            return (env.Leaf if nested == "Leaf" else env.Keyed)(**kw)
        b = copy.deepcopy(base)
        if kind == "fkids":
            # frozen elements are evolved, not edited: a new element with the given attributes replaced
            vals = {a: getattr(b, a) for a in ("x", "ys")}
            for k, v in kw.items():
                vals[k] = v(vals[k]) if callable(v) else v
            return type(b)(**vals)
        for k, v in kw.items():
            if callable(v):
                setattr(b, k, v(getattr(b, k)))
            else:
                setattr(b, k, v)
        return b

    def check_item(x):
        if not item_conforms(kind, x, env):
            raise Expect("ValueError", "TypeError")
        return x

    def dup_check(seq):
        if kind == "links":
            ks = [keyof(x) for x in seq]
            if len(set(ks)) != len(ks):
                raise Expect("ValueError")

    if kind in G.SEQ_KINDS:
        if created:
            c = []
        by_index = flags.get("_by_index", None)
        if m == "with":
            x = prep_item(kind, args[0], env, with_prep) if args else build_from_kw()
            if args and kw:
                x = build_from_kw(x)
            if "_index" not in flags:
                check_item(x)
                c.append(x)
            else:
                i = flags["_index"]
                if isinstance(i, str):  # key addressing on a KeyedList
                    pos = [j for j, y in enumerate(c) if keyof(y) == i]
                    if not pos:
                        raise Expect("KeyError", "IndexError")
                    i = pos[0]
                if flags.get("_insert"):
                    check_item(x)
                    c.insert(i, x)
                else:
                    if not (-len(c) <= i < len(c)):
                        raise Expect("IndexError")
                    check_item(x)
                    c[i] = x
            dup_check(c)
            return c
        target = args[0]
        if by_index is None:
            by_index = not item_conforms(kind, target, env)
        if by_index:
            if isinstance(target, str):
                pos = [j for j, y in enumerate(c) if keyof(y) == target]
                if not pos:
                    raise Expect("KeyError", "IndexError")
                j = pos[0]
            else:
                if not (-len(c) <= target < len(c)):
                    raise Expect("IndexError")
                j = target
            old = c[j]
        else:
            if target not in c:
                raise Expect("ValueError")
            j = c.index(target)
            old = c[j]  # the STORED element (equal to the addressing value, not necessarily the same: True == 1)
        if m == "without":
            del c[j]
            return c
        if m == "update":
            new = prep_item(kind, args[1], env, with_prep) if len(args) > 1 else old
            if kw:
                new = build_from_kw(new)
        else:  # transform
            new = args[1](copy.deepcopy(old)) if len(args) > 1 else copy.deepcopy(old)
            if kw:
                new = build_from_kw(new)
        check_item(new)
        c[j] = new
        dup_check(c)
        return c
    if kind in G.MAP_KINDS:
        if created:
            c = {}
        k = args[0]
        if m == "with":
            x = prep_item(kind, args[1], env, with_prep) if len(args) > 1 else build_from_kw()
            if len(args) > 1 and kw:
                x = build_from_kw(x)
            check_item(x)
            c[k] = x
            return c
        if k not in c:
            raise Expect("KeyError")
        if m == "without":
            del c[k]
            return c
        if m == "update":
            new = prep_item(kind, args[1], env, with_prep) if len(args) > 1 else c[k]
            if kw:
                new = build_from_kw(new)
        else:
            new = args[1](copy.deepcopy(c[k])) if len(args) > 1 else copy.deepcopy(c[k])
            if kw:
                new = build_from_kw(new)
        check_item(new)
        c[k] = new
        return c
    # sets
    if kind == "marks":
        if created:
            c = {}
        if m == "with":
            x = prep_item(kind, args[0], env, with_prep) if args else build_from_kw()
            check_item(x)
            c[keyof(x)] = x
            return c
        t = args[0]
        k = t if isinstance(t, str) else keyof(t)
        if k not in c:
            raise Expect("ValueError", "KeyError")
        old = c[k]
        if m == "without":
            del c[k]
            return c
        if m == "update":
            new = prep_item(kind, args[1], env, with_prep) if len(args) > 1 else old
            if kw:
                new = build_from_kw(new)
        else:
            new = args[1](copy.deepcopy(old)) if len(args) > 1 else copy.deepcopy(old)
            if kw:
                new = build_from_kw(new)
        check_item(new)
        del c[k]
        c[keyof(new)] = new
        return c
    if created:
        c = set()
    if m == "with":
        x = prep_item(kind, args[0], env, with_prep)
        check_item(x)
        c.add(x)
        return c
    t = args[0]
    if t not in c:
        raise Expect("ValueError", "KeyError")
    if m == "without":
        c.remove(t)
        return c
    stored = next(x for x in c if x == t)  # the STORED element (True == 1: equal, not the same)
    new = prep_item(kind, args[1], env, with_prep) if m == "update" else args[1](stored)
    check_item(new)
    c.remove(t)
    c.add(new)
    return c


def content_canon(kind, c):
    if c is MISSING_C:
        return MISSING_C
    if kind in G.SEQ_KINDS:
        return ("seq", tuple(snap.canon([x]) for x in c))
    if kind in G.MAP_KINDS:
        return ("map", tuple((repr(k), snap.canon([v])) for k, v in c.items()))  # insertion order is dict semantics
    if kind == "marks":
        return ("kset", tuple(sorted((repr(k), snap.canon([v])) for k, v in c.items())))
    return ("set", tuple(sorted((snap.canon([x]) for x in c), key=repr)))


def real_content(kind, obj, n):
    d = vars(obj)
    if n not in d:
        return MISSING_C
    return d[n]


def exc_family(e):
    for b in (IndexError, KeyError, ValueError, TypeError):
        if isinstance(e, b):
            return b.__name__
    return type(e).__name__


def size(c):
    return 0 if c is MISSING_C else len(c)


def judge(env, rec, hist, op2):
    """execute one transition on fresh objects and compare with the reference.
    -> (violations, ok, expected plain content | None, expected canon | None, outcome, pre canon)"""
    kind = rec["attrs"][0]["kind"]
    n = G.KINDS[kind]["name"]
    with_prep = n in rec.get("opts", {}).get("item_preparers", [])
    inplace = bool(op2["kw"].get("_inplace"))
    op = dict(op2, kw={k: v for k, v in op2["kw"].items() if k != "_inplace"})
    w = S.build(env, hist)
    pre_canon = content_canon(kind, plainify(kind, real_content(kind, w.obj, n)))
    exp = None
    try:
        exp = ref_apply(kind, env, plainify(kind, real_content(kind, w.obj, n)), op, with_prep)
        exp_c = content_canon(kind, exp)
        exp_raise = None
    except Expect as e:
        exp_c, exp_raise = None, e.fams
    G.CB.reset()
    op_exec = dict(op2, args=[(["elem", n, a[1]] if isinstance(a, list) and a and a[0] == "elem" else a) for a in op2["args"]])
    out = S.execute(w, op_exec, adopt=False)
    case = {"rec": rec, "history": [dict(o) for o in hist], "op": op2}
    sig = {"attr_kind": kind, "shape": op2["shape"], "inplace": inplace, "item_preparer": with_prep,
           "default": rec["attrs"][0].get("default", "none")}
    V = []
    holder = (w.obj if inplace else out.result) if not out.raised else None
    if exp_raise is not None:
        if not out.raised:
            got_c = content_canon(kind, plainify(kind, real_content(kind, holder, n)))
            V.append(violation(PROP, dict(sig, kind="should_raise", expected=sorted(exp_raise)),
                               {"before": repr(pre_canon)[:200], "got_content": repr(got_c)[:200]}, case))
        elif exc_family(out.exc) not in exp_raise:
            V.append(violation(PROP, dict(sig, kind="wrong_exception", expected=sorted(exp_raise), got=exc_family(out.exc)),
                               {"raised": repr(out.exc)[:200], "before": repr(pre_canon)[:200]}, case))
    elif out.raised:
        V.append(violation(PROP, dict(sig, kind="unexpected_raise", got=exc_family(out.exc)),
                           {"raised": repr(out.exc)[:200], "before": repr(pre_canon)[:200], "expected": repr(exp_c)[:200]}, case))
    else:
        got_c = content_canon(kind, plainify(kind, real_content(kind, holder, n)))
        if got_c != exp_c:
            V.append(violation(PROP, dict(sig, kind="wrong_content"),
                               {"before": repr(pre_canon)[:250], "expected": repr(exp_c)[:250], "got": repr(got_c)[:250]}, case))
    if not inplace and not out.raised:
        now = content_canon(kind, plainify(kind, real_content(kind, w.obj, n)))
        if now != pre_canon:
            V.append(violation(PROP, dict(sig, kind="receiver_content_changed"), {"before": repr(pre_canon)[:200], "after": repr(now)[:200]}, case))
    return V, not V, exp, exp_c, out, pre_canon


def explore_kind(task):
    rec = task["rec"]
    kind = rec["attrs"][0]["kind"]
    K = G.KINDS[kind]
    n = K["name"]
    with_prep = n in rec.get("opts", {}).get("item_preparers", [])
    C = Counter()
    env = G.Env(rec)
    max_len = task["max_len"]
    init = ({"op": "new", "kw": {}, "shape": "new"},)
    seen = {}
    w = S.build(env, init)
    seen[content_canon(kind, plainify(kind, real_content(kind, w.obj, n)))] = init
    frontier = [init]
    depth = 0
    while frontier and depth <= max_len:  # every content of <= max_len elements is reachable within max_len steps;
        nxt = []                          # one more level exercises all operations from the largest contents
        for hist in frontier:
            w0 = S.build(env, hist)
            ln = size(real_content(kind, w0.obj, n))
            for op in gen_ops(kind, K, ln, with_prep, task["tier"] == "quick"):
                for inplace in (False, True):
                    op2 = dict(op, kw=dict(op["kw"], **({"_inplace": True} if inplace else {})))
                    V, ok, exp, exp_c, out, pre_canon = judge(env, rec, hist, op2)
                    C.inc("transitions")
                    C.inc("evaluations")
                    C.outcome("raise" if out.raised else "ok")
                    for v in V:
                        C.viol(v)
                    if ok:
                        C.inc("traces_validated_against_impl")
                        if out.raised or exp_c != pre_canon:
                            C.nontrivial((repr(pre_canon), repr(op2)))
                    if ok and inplace and not out.raised and exp_c not in seen and size(exp) <= max_len and depth < max_len:
                        op_h = dict(op2, args=[(["elem", n, a[1]] if isinstance(a, list) and a and a[0] == "elem" else a) for a in op2["args"]])
                        seen[exp_c] = hist + (op_h,)
                        nxt.append(hist + (op_h,))
        frontier = nxt
        depth += 1
    C.rec["states"] = len(seen)
    C.rec["extra"]["max_depth"] = depth
    C.rec["extra"]["kinds"] = [f"{rec['name']}: states={len(seen)}"]
    C.sample({"class": rec["name"], "history": [o.get("m", o["op"]) + repr(o.get("args", "")) + repr(o.get("kw", "")) for o in max(seen.values(), key=len)]})
    return C.rec


def run_case(case):
    env = G.Env(case["rec"])
    V, *_ = judge(env, case["rec"], tuple(case["history"]), case["op"])
    return V


def main(run):
    quick = run.tier == "quick"
    tasks = []
    for kind in G.COLLECTION_KINDS:
        K = G.KINDS[kind]
        variants = [G.single(kind, "none"), G.single(kind, "mut")]
        if kind in EXTRA_FOR_PREPARER or kind in ("nums", "tags", "scores", "words", "labels"):
            variants.append(G.single(kind, "none", item_preparers=[K["name"]]))
        for rec in variants:
            tasks.append({"rec": rec, "max_len": (3 if kind in ("nums", "words", "scores", "tags", "labels") else 2) if quick else (4 if kind in ("nums", "words", "tags", "labels") else 3),
                          "tier": run.tier})
    # the stored dict is a defaultdict: looking a key up would CREATE it - a missing key must still be reported
    tasks.append({"rec": G.single("scores", "ddict"), "max_len": 2 if quick else 3, "tier": run.tier})
    for kind, opts in (("fkids", {"leaf_is_frozen": True}), ("invs", {})):
        for dflt in ("none", "mut"):
            tasks.append({"rec": {"name": f"C06_{kind}_{dflt}", "attrs": [{"kind": kind, "default": dflt}], "opts": dict(opts)}, "max_len": 2 if quick else 3,
                          "tier": run.tier})
    for rec in pmap(explore_kind, tasks):
        run.merge(rec)
    run.add(rule=(
        "per collection kind (x missing / defaulted container x item preparer): BFS over container contents reachable by in-place "
        "element operations (length bound 2-3 quick, 3 thorough; element universes with falsy members and equal elements); from every "
        "content every element helper with every addressing mode (_index in [-len-1,len+1] x _insert, _by_index default/True/False, by "
        "key, by value, keywords, bare key) is run copy-on-write and in place and compared with the plain container operation"
    ))
    run.assumptions += [
        "by-index default = 'index unless the argument has the element type' (documented)",
        "a missing target raises IndexError (list index), KeyError (dict key), ValueError (list value); ValueError or KeyError for sets",
        "key addressing on a plain List[Keyed] (not a KeyedList) is undocumented and not exercised",
    ]
