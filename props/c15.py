"""
C15 — the run-time type check accepts a value exactly when it conforms structurally.

Engine E4: exhaustive enumeration of annotation terms of bounded depth over the stated type
language x a value pool that contains, for each term, conforming values and values failing at
each structural position.  Reference `conforms(value, term)` is evaluated on the *term tree*
(never on the typing object, never calling spec_classes.utils.type_checking).
Oracle: check_type(value, T) == conforms(value, term) and check_type does not raise.
"""
from __future__ import annotations

import decimal
import itertools
import typing

from mc.common import Counter, pmap, violation

PROP = "C15"

# ------------------------------------------------------------------------------------------------
# the type language
# ------------------------------------------------------------------------------------------------
_ENV = {}


def env():
    if not _ENV:
        from spec_classes import spec_class
        from spec_classes.types import bounded, validated

        class U:
            def __eq__(self, other):
                return type(other) is type(self)

            def __hash__(self):
                return 7

            def __repr__(self):
                return type(self).__name__ + "()"

        class USub(U):
            pass

        @spec_class
        class S:
            x: int = 0

        S()

        def is_short_str(v):
            return isinstance(v, str) and len(v) <= 1

        _ENV.update(
            U=U, USub=USub, S=S,
            atoms={
                "Any": typing.Any,
                "int": int, "float": float, "str": str, "bool": bool, "bytes": bytes, "NoneType": type(None),
                "NoneLit": None,  # `None` spelled literally: typing.List[None] normalises it, list[None] / dict[str, None] keep it
                "U": U, "S": S,
                "Lit1a": typing.Literal[1, "a"], "LitTrue": typing.Literal[True],
                "int_ge0": bounded(int, ge=0), "int_gt0": bounded(int, gt=0),
                "float_le0": bounded(float, le=0), "float_lt0": bounded(float, lt=0),
                "int_ge1_le2": bounded(int, ge=1, le=2),
                "shortstr": validated(is_short_str, name="shortstr"),
            },
        )
    return _ENV


ATOMS = ["Any", "int", "float", "str", "bool", "bytes", "NoneType", "NoneLit", "U", "S", "Lit1a", "LitTrue",
         "int_ge0", "int_gt0", "float_le0", "float_lt0", "int_ge1_le2", "shortstr"]
CLASS_ATOMS = ["int", "float", "str", "bool", "bytes", "U", "S"]
SMALL_ATOMS = ["int", "str", "NoneType", "Any"]
UNARY = ["List", "Set", "TupleVar", "Optional", "list", "set", "tuplevar"]
BINARY = ["Dict", "Tuple2", "Union", "Or", "dict", "tuple2"]
TYPE_CONS = ["Type", "type"]


def materialize(t):
    """term tree -> annotation object (raises if python cannot build it)"""
    e = env()
    k = t[0]
    if k == "atom":
        return e["atoms"][t[1]]
    if k == "Tuple0":
        return typing.Tuple[()]
    a = materialize(t[1])
    if k == "List":
        return typing.List[a]
    if k == "Set":
        return typing.Set[a]
    if k == "TupleVar":
        return typing.Tuple[a, ...]
    if k == "Optional":
        return typing.Optional[a]
    if k == "list":
        return list[a]
    if k == "set":
        return set[a]
    if k == "tuplevar":
        return tuple[a, ...]
    if k == "Type":
        return typing.Type[a]
    if k == "type":
        return type[a]
    b = materialize(t[2])
    if k == "Dict":
        return typing.Dict[a, b]
    if k == "Tuple2":
        return typing.Tuple[a, b]
    if k == "Union":
        return typing.Union[a, b]
    if k == "Or":
        return a | b
    if k == "dict":
        return dict[a, b]
    if k == "tuple2":
        return tuple[a, b]
    raise ValueError(t)


def label(t):
    if t[0] == "atom":
        return t[1]
    if t[0] == "Tuple0":
        return "Tuple[()]"
    return t[0] + "[" + ", ".join(label(x) for x in t[1:]) + "]"


# ------------------------------------------------------------------------------------------------
# reference semantics on the term tree
# ------------------------------------------------------------------------------------------------
def _is_real_number(v):
    return isinstance(v, (int, float))  # bool is an int


def conforms(v, t):
    """True / False, or None for a declared don't-care"""
    e = env()
    k = t[0]
    if k == "atom":
        n = t[1]
        if n == "Any":
            return True
        if n == "int":
            return isinstance(v, int)
        if n == "float":
            return _is_real_number(v)  # int accepted where float is declared
        if n == "str":
            return isinstance(v, str)
        if n == "bool":
            return isinstance(v, bool)
        if n == "bytes":
            return isinstance(v, bytes)
        if n in ("NoneType", "NoneLit"):
            return v is None
        if n == "U":
            return isinstance(v, e["U"])
        if n == "S":
            return isinstance(v, e["S"])
        if n == "Lit1a":
            return _lit(v, (1, "a"))
        if n == "LitTrue":
            return _lit(v, (True,))
        if n == "int_ge0":
            return isinstance(v, int) and v >= 0
        if n == "int_gt0":
            return isinstance(v, int) and v > 0
        if n == "float_le0":
            return _is_real_number(v) and v <= 0
        if n == "float_lt0":
            return _is_real_number(v) and v < 0
        if n == "int_ge1_le2":
            return isinstance(v, int) and 1 <= v <= 2
        if n == "shortstr":
            return isinstance(v, str) and len(v) <= 1
        raise ValueError(n)
    if k == "Tuple0":
        return isinstance(v, tuple) and len(v) == 0
    if k in ("List", "list"):
        return isinstance(v, list) and _all(conforms(x, t[1]) for x in v)
    if k in ("Set", "set"):
        return isinstance(v, set) and _all(conforms(x, t[1]) for x in v)
    if k in ("TupleVar", "tuplevar"):
        return isinstance(v, tuple) and _all(conforms(x, t[1]) for x in v)
    if k == "Optional":
        return _any([v is None, conforms(v, t[1])])
    if k in ("Type", "type"):
        if not isinstance(v, type):
            return False
        return _subclass(v, t[1])
    if k in ("Dict", "dict"):
        return isinstance(v, dict) and _all(
            itertools.chain((conforms(x, t[1]) for x in v.keys()), (conforms(x, t[2]) for x in v.values()))
        )
    if k in ("Tuple2", "tuple2"):
        return isinstance(v, tuple) and len(v) == 2 and _all([conforms(v[0], t[1]), conforms(v[1], t[2])])
    if k in ("Union", "Or"):
        return _any([conforms(v, t[1]), conforms(v, t[2])])
    raise ValueError(t)


def _lit(v, choices):
    for c in choices:
        try:
            if v is c or v == c:
                return True
        except Exception:
            pass
    return False


def _all(it):
    res = True
    for x in it:
        if x is False:
            return False
        if x is None:
            res = None
    return res


def _any(xs):
    res = False
    for x in xs:
        if x is True:
            return True
        if x is None:
            res = None
    return res


def _subclass(cls, t):
    e = env()
    if t[0] == "atom":
        n = t[1]
        if n == "Any":
            return True
        table = {"int": int, "float": float, "str": str, "bool": bool, "bytes": bytes, "U": e["U"], "S": e["S"],
                 "NoneType": type(None), "NoneLit": type(None)}
        return issubclass(cls, table[n])
    if t[0] in ("Union", "Or"):
        return _any([_subclass(cls, t[1]), _subclass(cls, t[2])])
    if t[0] == "Optional":
        return _any([_subclass(cls, t[1]), cls is type(None)])
    # a parameterised generic under Type[...]: the subclass relation is with the underlying class (the element
    # types cannot be judged for a class)
    origin = {"List": list, "list": list, "Set": set, "set": set, "Dict": dict, "dict": dict, "TupleVar": tuple, "tuplevar": tuple,
              "Tuple2": tuple, "tuple2": tuple}.get(t[0])
    if origin is not None:
        return issubclass(cls, origin)
    raise ValueError(t)


# ------------------------------------------------------------------------------------------------
# values
# ------------------------------------------------------------------------------------------------
def base_pool():
    e = env()
    U, USub, S = e["U"], e["USub"], e["S"]
    return [
        None, True, False, 0, 1, -1, 2, 3, 0.0, 1.0, -0.5, 2.5, float("nan"), "a", "", "b", "ab", b"", b"x",
        [], [1], ["a"], [1, "a"], [None], [[1]], [0.5], [True], [float("nan")],
        (), (1,), (1, "a"), ("a", 1), (1, 1, 1), ("a", "a"), (None, None), ((1,), 1),
        set(), {1}, {"a"}, {1, "a"}, {None},
        {}, {"a": 1}, {1: "a"}, {"a": "a"}, {1: 1}, {"a": [1]}, {None: None},
        int, str, bool, float, bytes, U, USub, S, type(None), object, type,
        U(), USub(), S(), S(x=1), decimal.Decimal(1), 1j, object(), frozenset(), len,
    ]


ATOM_GOOD = {
    "Any": lambda e: [object(), 1],
    "int": lambda e: [0, 2],
    "float": lambda e: [0.5, 1],
    "str": lambda e: ["a", ""],
    "bool": lambda e: [True, False],
    "bytes": lambda e: [b"x"],
    "NoneType": lambda e: [None],
    "NoneLit": lambda e: [None],
    "U": lambda e: [e["U"](), e["USub"]()],
    "S": lambda e: [e["S"](x=2)],
    "Lit1a": lambda e: [1, "a"],
    "LitTrue": lambda e: [True],
    "int_ge0": lambda e: [0, 5],
    "int_gt0": lambda e: [1],
    "float_le0": lambda e: [0, -1.5, 0.0],
    "float_lt0": lambda e: [-1, -0.25],
    "int_ge1_le2": lambda e: [1, 2],
    "shortstr": lambda e: ["", "z"],
}
ATOM_BAD = {
    "Any": lambda e: [],
    "int": lambda e: ["1", 1.0, None],
    "float": lambda e: ["1.0", None, 1j],
    "str": lambda e: [1, b"a", None],
    "bool": lambda e: [1, 0, "True"],
    "bytes": lambda e: ["x", 1],
    "NoneType": lambda e: [0, "", False],
    "NoneLit": lambda e: [0, "", False],
    "U": lambda e: [e["S"](), e["U"], object()],
    "S": lambda e: [e["U"](), {"x": 1}, e["S"]],
    "Lit1a": lambda e: [2, "b", 1.5, "A"],
    "LitTrue": lambda e: [False, 0, "True"],
    "int_ge0": lambda e: [-1, 0.5, "0"],
    "int_gt0": lambda e: [0, -3, 1.5],
    "float_le0": lambda e: [0.5, 1, "0"],
    "float_lt0": lambda e: [0, 0.0, 2],
    "int_ge1_le2": lambda e: [0, 3, 1.5],
    "shortstr": lambda e: ["ab", 1, None],
}


def good(t):
    """a few conforming values"""
    e = env()
    k = t[0]
    if k == "atom":
        return ATOM_GOOD[t[1]](e)
    if k == "Tuple0":
        return [()]
    if k in ("List", "list"):
        g = good(t[1])
        return [[], list(g[:1]), list(g[:2])]
    if k in ("Set", "set"):
        out = [set()]
        for n in (1, 2):
            try:
                out.append(set(good(t[1])[:n]))
            except TypeError:
                pass
        return out
    if k in ("TupleVar", "tuplevar"):
        g = good(t[1])
        return [(), tuple(g[:1]), tuple(g[:2])]
    if k == "Optional":
        return [None] + good(t[1])[:1]
    if k in ("Type", "type"):
        return [c for c in (int, bool, str, float, bytes, e["U"], e["USub"], e["S"], type(None), object)
                if _subclass(c, t[1])][:3]
    if k in ("Dict", "dict"):
        out = [{}]
        for gk in good(t[1])[:2]:
            for gv in good(t[2])[:1]:
                try:
                    out.append({gk: gv})
                except TypeError:
                    pass
        return out
    if k in ("Tuple2", "tuple2"):
        return [(a, b) for a in good(t[1])[:2] for b in good(t[2])[:1]]
    if k in ("Union", "Or"):
        return good(t[1])[:1] + good(t[2])[:1]
    raise ValueError(t)


def failing(t):
    """values that conform everywhere except (at least) one structural position of t; the
    reference decides the verdict, so over-generation is harmless"""
    e = env()
    k = t[0]
    if k == "atom":
        return ATOM_BAD[t[1]](e)
    if k == "Tuple0":
        return [(1,), []]
    if k in ("List", "list"):
        g = good(t[1])[:1]
        return [tuple(g), set(), None] + [g + [f] for f in failing(t[1])] + [[f] + g for f in failing(t[1])[:1]]
    if k in ("Set", "set"):
        out = [[], frozenset(), None]
        g = good(t[1])[:1]
        for f in failing(t[1]):
            try:
                out.append(set(g + [f]))
            except TypeError:
                pass
        return out
    if k in ("TupleVar", "tuplevar"):
        g = good(t[1])[:1]
        return [list(g), None] + [tuple(g + [f]) for f in failing(t[1])]
    if k == "Optional":
        return failing(t[1])
    if k in ("Type", "type"):
        return [c for c in (int, str, e["U"], e["S"], object, type(None)) if not _subclass(c, t[1])][:3] + [1, "int", None] + \
            [g for g in good(t[1])[:1] if t[1][0] == "atom"]
    if k in ("Dict", "dict"):
        out = [[], None, set()]
        gk, gv = good(t[1])[:1], good(t[2])[:1]
        for f in failing(t[1]):
            for v in gv:
                try:
                    out.append({f: v})
                except TypeError:
                    pass
        for f in failing(t[2]):
            for kx in gk:
                try:
                    out.append({kx: f})
                except TypeError:
                    pass
        return out
    if k in ("Tuple2", "tuple2"):
        ga, gb = good(t[1])[:1], good(t[2])[:1]
        out = [None] + [list(x) for x in good(t)[:1]]
        for a in ga:
            out.append((a,))
            for b in gb:
                out.append((a, b, b))
                out += [(f, b) for f in failing(t[1])]
                out += [(a, f) for f in failing(t[2])]
        return out
    if k in ("Union", "Or"):
        return failing(t[1]) + failing(t[2])
    raise ValueError(t)


_BASE = []


def values_for(t):
    if not _BASE:
        _BASE.extend(base_pool())
    vals = list(_BASE)
    try:
        vals += good(t)
    except Exception:
        pass
    try:
        vals += failing(t)
    except Exception:
        pass
    if t[0] in ("Tuple2", "tuple2"):
        # the SAME mutable container at both positions: each position is judged against its own declared type
        try:
            for a in good(t[1]) + good(t[2]):
                if isinstance(a, (list, set, dict)):
                    vals.append((a, a))
        except Exception:
            pass
    return vals


# ------------------------------------------------------------------------------------------------
# term enumeration
# ------------------------------------------------------------------------------------------------
def type_arg_terms():
    """arguments allowed under Type[...]: class atoms, Any, unions of two class atoms"""
    out = [["atom", a] for a in CLASS_ATOMS + ["Any", "NoneType", "NoneLit"]]  # (type[None]: builtin generics keep the literal None)
    out += [["Union", ["atom", a], ["atom", b]] for a, b in (("int", "str"), ("U", "S"), ("bool", "bytes"), ("int", "NoneLit"))]
    # parameterised generics (issubclass itself refuses them)
    out += [["List", ["atom", "int"]], ["list", ["atom", "str"]], ["Dict", ["atom", "str"], ["atom", "int"]], ["TupleVar", ["atom", "int"]],
            ["set", ["atom", "int"]], ["tuple2", ["atom", "int"], ["atom", "str"]]]
    # ... also as alternatives of a union, and Any as an alternative
    out += [["Union", ["List", ["atom", "int"]], ["atom", "str"]], ["Optional", ["List", ["atom", "int"]]], ["Or", ["list", ["atom", "int"]], ["atom", "str"]],
            ["Union", ["atom", "Any"], ["atom", "str"]], ["Optional", ["atom", "int"]]]
    return out


def depth0():
    return [["atom", a] for a in ATOMS]


def cons_over(inner, binary_other=None, with_type=True):
    out = []
    for a in inner:
        for c in UNARY:
            out.append([c, a])
    if binary_other is None:
        binary_other = inner
    for c in BINARY:
        for a in inner:
            for b in binary_other:
                out.append([c, a, b])
        if binary_other is not inner:
            for a in binary_other:
                for b in inner:
                    out.append([c, a, b])
    return out


def enumerate_terms(tier):
    d0 = depth0()
    tterms = [[c, a] for c in TYPE_CONS for a in type_arg_terms()]
    d1 = cons_over(d0) + tterms + [["Tuple0"]]
    small = [["atom", a] for a in SMALL_ATOMS]
    terms = [("d0", d0), ("d1", d1)]
    d2_unary = [[c, a] for a in d1 for c in UNARY]
    terms.append(("d2_unary", d2_unary))
    if tier == "thorough":
        d2_bin = []
        for c in BINARY:
            for a in d1:
                for b in small:
                    d2_bin.append([c, a, b])
                    d2_bin.append([c, b, a])
        terms.append(("d2_binary_one_atomic_side", d2_bin))
        d3 = [[c, a] for a in d2_unary for c in ("List", "Optional", "TupleVar", "set", "dict_str")]
        d3 = [(["Dict", ["atom", "str"], x[1]] if x[0] == "dict_str" else x) for x in d3]
        terms.append(("d3_unary_over_d2_unary", d3))
    else:
        # quick: binary constructors at depth 2 with both sides drawn from a small family
        fam = small + [["List", ["atom", "int"]], ["Optional", ["atom", "str"]], ["Tuple2", ["atom", "int"], ["atom", "str"]],
                       ["Dict", ["atom", "str"], ["atom", "int"]], ["atom", "int_ge0"], ["atom", "Lit1a"], ["atom", "float"]]
        d2_bin = [[c, a, b] for c in BINARY for a in fam for b in fam if a[0] != "atom" or b[0] != "atom"]
        terms.append(("d2_binary_small_family", d2_bin))
    lf, li, sf, si = ["List", ["atom", "float"]], ["List", ["atom", "int"]], ["Set", ["atom", "float"]], ["Set", ["atom", "int"]]
    terms.append(("same_container_at_two_positions", [["Tuple2", lf, li], ["Tuple2", li, lf], ["tuple2", sf, si], ["Tuple2", ["Dict", ["atom", "str"], ["atom", "float"]], ["Dict", ["atom", "str"], ["atom", "int"]]],
                                                      ["List", ["Tuple2", lf, li]], ["Optional", ["Tuple2", lf, li]]]))
    return terms


# ------------------------------------------------------------------------------------------------
# checking
# ------------------------------------------------------------------------------------------------
def position_class(v, t):
    """coarse classification of where a non-conforming value fails (for signatures)"""
    k = t[0]
    if k == "atom":
        return "atom:" + t[1]
    return k


def check_pair(t, T, v, vi, out, C, after=None):
    from spec_classes.utils.type_checking import check_type

    exp = conforms(v, t)
    try:
        got = check_type(v, T)
        raised = None
    except Exception as e:  # noqa
        got, raised = None, e
    C.inc("transitions")
    if raised is not None:
        out.append(
            violation(PROP, {"kind": "raises", "cons": t[0], "inner": t[1][0] if len(t) > 1 and isinstance(t[1], list) else None,
                             "exc": type(raised).__name__, "term": label(t) if len(label(t)) < 40 else t[0]},
                      {"term": label(t), "value": repr(v)[:100], "raised": repr(raised)[:200], "expected": exp},
                      {"term": t, "vi": vi, "after": after})
        )
        return
    if exp is None:
        C.inc("dontcare")
        return
    if bool(got) != exp:
        out.append(
            violation(PROP, {"kind": "accepts_nonconforming" if got else "rejects_conforming", "cons": t[0],
                             "term": label(t) if len(label(t)) < 40 else t[0], "vtype": type(v).__name__,
                             "history": "fresh" if after is None else "after_a_value_of_the_same_class"},
                      {"term": label(t), "value": repr(v)[:100], "expected": exp, "got": got},
                      {"term": t, "vi": vi, "after": after})
        )
    else:
        C.inc("traces_validated_against_impl")


def run_case(case):
    if case.get("part") == "raising_predicate":
        probs = raising_predicate_case(tuple(case["sequence"]))
        return [violation(PROP, {"kind": "verdict_depends_on_an_aborted_check", "part": "raising_predicate", "length": len(case["sequence"])},
                          {"problems": probs[:3], "sequence": list(case["sequence"])}, case)] if probs else []
    t = case["term"]
    T = materialize(t)
    vals = values_for(t)
    out = []
    C = Counter()
    if case.get("after") is not None:
        from spec_classes.utils.type_checking import check_type

        try:
            check_type(vals[case["after"]], T)
        except Exception:
            pass
    check_pair(t, T, vals[case["vi"]], case["vi"], out, C, case.get("after"))
    return out


def work(chunk):
    C = Counter()
    name, terms = chunk
    for t in terms:
        try:
            T = materialize(t)
        except Exception:
            C.inc("unbuildable_terms")
            continue
        C.inc("states")
        vals = values_for(t)
        n_true = n_false = 0
        out = []
        for vi, v in enumerate(vals):
            before = len(out)
            check_pair(t, T, v, vi, out, C)
            C.inc("evaluations")
        if "Or[" in label(t) or t[0] == "Or":
            # the verdict for a value may not depend on what was checked before: every ordered pair of values of the
            # same runtime class (one may match one alternative, the other only another) against the same annotation
            from spec_classes.utils.type_checking import check_type

            for i, j in itertools.permutations(range(len(vals)), 2):
                if type(vals[i]) is not type(vals[j]):
                    continue
                try:
                    check_type(vals[i], T)
                except Exception:
                    pass
                check_pair(t, T, vals[j], j, out, C, after=i)
                C.inc("evaluations")
        for v in out:
            C.viol(v)
        # non-trivial: the term has both accepted and rejected values in its pool
        acc = {conforms(v, t) for v in vals}
        if True in acc and False in acc:
            C.nontrivial(label(t))
    if terms:
        t = terms[len(terms) // 2]
        C.sample({"family": name, "term": label(t), "n_values": len(values_for(t))})
    C.rec["extra"]["families"] = {name: len(terms)}
    return C.rec


# ------------------------------------------------------------------------------------------------
# histories with a user predicate that raises: the verdict for an object never depends on an earlier, aborted check
# ------------------------------------------------------------------------------------------------
def raising_predicate_case(seq):
    """seq over {"check_incomplete" (the predicate raises KeyError), "amend_bad", "amend_good", "check"}"""
    from typing import Dict, List, Optional, Union

    from spec_classes.types import validated
    from spec_classes.utils.type_checking import check_type

    ok = validated(lambda d: d["ok"] is True, name="ok_record")   # raises KeyError for a record without the key
    wrappers = {"bare": ok, "optional": Optional[ok], "list": List[ok], "dict_union": Dict[str, Union[ok, int]]}
    wrap = {"bare": lambda o: o, "optional": lambda o: o, "list": lambda o: [o], "dict_union": lambda o: {"k": o}}
    probs = []
    for wname, T in wrappers.items():
        obj = {}
        for i, op in enumerate(seq):
            if op == "amend_bad":
                obj["ok"] = False
            elif op == "amend_good":
                obj["ok"] = True
            else:
                try:
                    got = check_type(wrap[wname](obj), T)
                except KeyError:
                    got = "KeyError"
                want = "KeyError" if "ok" not in obj else (obj["ok"] is True)
                if got != want and not (got is not want and bool(got) == want and want != "KeyError" and got != "KeyError"):
                    probs.append(f"{wname}: step {i} check of {obj!r} gave {got!r}, expected {want!r}")
    return probs


def raising_predicate_worker(task):
    C = Counter()
    ops = ["check", "amend_bad", "amend_good"]
    for r in (1, 2, 3, 4):
        for seq in itertools.product(ops, repeat=r):
            if "check" not in seq:
                continue
            probs = raising_predicate_case(seq)
            C.inc("states")
            C.inc("transitions", 4 * len(seq))
            C.inc("evaluations")
            if probs:
                C.viol(violation(PROP, {"kind": "verdict_depends_on_an_aborted_check", "part": "raising_predicate", "length": len(seq)},
                                 {"problems": probs[:3], "sequence": list(seq)}, {"part": "raising_predicate", "sequence": list(seq)}))
            else:
                C.inc("traces_validated_against_impl")
                C.nontrivial(("rp", seq))
    C.sample({"part": "raising_predicate", "ops": ops})
    C.rec["extra"]["families"] = {"raising_predicate_histories": 1}
    return C.rec


def dispatch(chunk):
    if isinstance(chunk, dict) and chunk.get("part") == "raising_predicate":
        return raising_predicate_worker(chunk)
    return work(chunk)


def main(run):
    fams = enumerate_terms(run.tier)
    chunks = []
    for name, terms in fams:
        n = 400
        for i in range(0, len(terms), n):
            chunks.append((name, terms[i : i + n]))
    chunks.append({"part": "raising_predicate"})
    for rec in pmap(dispatch, chunks):
        run.merge(rec)
    run.add(
        rule=(
            "every annotation term of the families listed under 'families' (all atoms; all constructors over atoms; "
            "all unary constructors over depth-1 terms; binary constructors at depth 2 as listed; thorough adds depth 3) x "
            "(base pool of ~65 values + per-term generated conforming values + values failing at each structural position); "
            "states = buildable terms, transitions = (term,value) checks; a term is non-trivial when its pool contains both "
            "accepted and rejected values"
        )
    )
    run.assumptions += [
        "float accepts int and float (bool included); other numbers.Real implementations (Fraction) are not in the pool",
        "Literal is equality with a listed choice (True matches Literal[1])",
        "Type[...] arguments are restricted to class atoms, Any and unions of class atoms",
        "CPython 3.12 typing semantics",
    ]
