"""
C04 — an operation that raises leaves every pre-existing object unchanged.

E1 over the class family with the widest alphabet (constructor, assignment, deletion, in-place and
copy-on-write helpers, multi-keyword update/transform with the failing keyword second, element
helpers; ill-typed values at each position, missing index/key/element, duplicate key, unknown
keyword, raising transforms) + E2 callback faults (transform, attribute transform, preparer, item
preparer, validator predicate, default factory, __post_init__, __post_copy__ at every invocation).
Oracle: if the call raised, the canonical form (structure + aliasing) of receiver, other live
instances, argument objects and class-level defaults is exactly as before the call.
"""
from __future__ import annotations

from mc import explore, grammar as G, snap
from mc import spec_ops as S
from mc.common import pmap

PROP = "C04"


def class_defaults(env):
    out = {}
    names = set()
    try:
        names = set(env.cls.__spec_class__.attrs)
    except Exception:
        pass
    for k in env.cls.__mro__:
        md = vars(k).get("__spec_class__")
        if md is not None and hasattr(md, "attrs"):
            for n, a in md.attrs.items():
                if snap.kind_of(a.default) != "leaf":
                    out[f"{k.__name__}.__spec_class__.attrs[{n}].default"] = a.default
        for n in names:
            if n in vars(k) and snap.kind_of(vars(k)[n]) not in ("leaf",) and not hasattr(type(vars(k)[n]), "__get__"):
                out[f"{k.__name__}.{n}"] = vars(k)[n]
    return out


class Oracle:
    faults = ("callbacks",)

    def __init__(self, task):
        self.task = task
        self.quick = task.get("tier") == "quick"

    def applies(self, rec):
        return True

    def profile(self, rec):
        P = {"raising": True, "invalid": True, "ctor": True}
        if self.quick or len(rec["attrs"]) > 1:
            P["small"] = True
        return P

    def checked(self, op):
        return True

    def roots(self, ctx):
        w = ctx.world
        r = {}
        for i, o in enumerate(w.objs):
            r[f"obj{i}"] = o
        for i, a in enumerate(w.args):
            r[f"arg{i}"] = a
        r.update(class_defaults(ctx.env))
        r.update({"env:" + k: v for k, v in G.env_roots(ctx.env).items()})
        return r

    def pre(self, ctx):
        # property-served attributes: fill the cache first (a read); a cache entry that appears during the judged call is
        # then not mistaken for a change of the receiver (C01 treats such an entry as neutral, DESIGN 3.5)
        for a in ctx.rec["attrs"]:
            if a.get("prop") in ("cached", "stored"):  # (stored: the getter creates the private store on first read)
                for o in ctx.world.objs:
                    G.CB.suspended = True
                    try:
                        getattr(o, G.attr_name(a))
                    except Exception:
                        pass
                    finally:
                        G.CB.suspended = False
        r = self.roots(ctx)
        ctx.store["roots"] = r
        ctx.store["canon"] = snap.canon(r)
        ctx.store["each"] = {n: snap.canon([o]) for n, o in r.items()}
        ctx.store["pre_done"] = True

    def post(self, ctx, out):
        if not out.raised:
            return []
        after = snap.canon(ctx.store["roots"])
        if after == ctx.store["canon"]:
            return []
        changed = [n for n, o in ctx.store["roots"].items() if snap.canon([o]) != ctx.store["each"][n]]
        if not changed:
            changed = ["<aliasing between roots>"]
            ctx.store["each"]["<aliasing between roots>"] = None
        what = ("receiver" if any(c.startswith("obj") for c in changed) else "argument" if any(c.startswith("arg") for c in changed)
                else "aliasing" if changed == ["<aliasing between roots>"]
                else "resolved_argument" if any(c.startswith("env:") for c in changed) else "class_default")
        bef = ctx.store["each"]
        aft = {n: snap.canon([o]) for n, o in ctx.store["roots"].items()}
        return [explore.violation(PROP, ctx.sig("changed_on_raise", what=what, raised=out.family()),
                                  {"changed_roots": changed, "before": repr(bef.get(changed[0]))[:400], "after": repr(aft.get(changed[0]))[:400],
                                   "outcome": out.brief()}, ctx.case())]


def make_oracle(task):
    return Oracle(task)


def run_case(case):
    return explore.replay_case(case, "props.c04")


def main(run):
    from props.c01 import tasks_for

    tasks = tasks_for(run, "props.c04", PROP)
    for rec in pmap(explore.explore_class, tasks):
        run.merge(rec)
    run.add(rule=(
        "BFS over histories of each generated class with the widest alphabet; every transition is judged: if it raises, the "
        "canonical form of all pre-existing roots (instances, arguments, class defaults) must be unchanged; every transition is "
        "re-executed once per user-callback invocation with that callback raising; non-trivial = raises or changes the state"
    ))
    run.assumptions += [
        "line-level fault injection is not applied here (the quantifier lists argument faults and callback faults only)",
        "observable change = change of canonical structure or aliasing; replacing an inner object by an equal fresh one is not a change",
    ]
