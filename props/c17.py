"""
C17 — every generated method accepts exactly what its advertised signature says.

E4: for every method generated for every class of the family (constructor, update/transform/reset,
four scalar and four element helpers per attribute) plus dedicated hosts with nested spec classes
(init=False attribute, overflow attribute): every single advertised parameter, every pair,
positional-or-keyword parameters both ways, keyword-only parameters passed positionally, and a set
of unadvertised names.  The wrapper's `implementation` global is replaced by a spy: every
advertised keyword passed must arrive under its name with the value given; omitted real parameters
arrive with the default the signature shows; omitted virtual parameters are absent.  Unadvertised
keywords must raise TypeError on the REAL method and leave the receiver observably unchanged.  The
nested keywords must equal, one-to-one, the init-enabled attributes of the nested spec class
(attribute type, or element type for containers) excluding its overflow attribute.
"""
from __future__ import annotations

import inspect
import itertools

from mc import grammar as G, snap
from mc.common import Counter, pmap, violation

PROP = "C17"
P = inspect.Parameter

HOST_SRC = '''
@spec_class(init_overflow_attr="extras")
class NestO:
    x: int = 0
    hidden: int = Attr(default=1, init=False)

@spec_class(key="key")
class NestK:
    key: str
    n: int = 0
    hidden: int = Attr(default=1, init=False)

@spec_class
class Host:
    nest: NestK = Attr(default_factory=lambda: NestK("k"))
    nesto: NestO = Attr(default_factory=NestO)
    nests: List[NestK] = []
    nmap: Dict[str, NestK] = {}
    nset: KeyedSet[NestK, str] = Attr(default_factory=lambda: KeyedSet[NestK, str]())
    plain: int = 0
NestO(); NestK("w"); Host()
'''
NESTED_OF = {"nest": "NestK", "nesto": "NestO", "nests": "NestK", "nmap": "NestK", "nset": "NestK", "leaf": "Leaf", "kids": "Leaf", "pairs": "Leaf",
             "units": "Keyed", "parts": "Keyed", "links": "Keyed", "marks": "Keyed"}


def make_spy():
    calls = []

    def spy(*args, **kwargs):  # (the wrapper passes `self=` by keyword: no named parameters here)
        calls.append((args, kwargs))
        return "spied"

    spy.calls = calls
    return spy


def generated_methods(cls):
    out = []
    for name in sorted(set(dir(cls))):
        try:
            m = getattr(cls, name)
        except Exception:
            continue
        g = getattr(m, "__globals__", None)
        if inspect.isfunction(m) and isinstance(g, dict) and "implementation" in g and "validate_attrs" in g:
            out.append((name, m))
    return out


def real_params(m):
    c = m.__code__
    n = c.co_argcount + c.co_kwonlyargcount
    names = list(c.co_varnames[:n])
    return [x for x in names if x != "self"], bool(c.co_flags & 0x08)


def sentinel(name):
    return ("S", name)


def call_with_spy(m, inst, args, kwargs):
    g = m.__globals__
    orig = g["implementation"]
    spy = make_spy()
    g["implementation"] = spy
    try:
        try:
            r = m(inst, *args, **kwargs)
            return ("ok", spy.calls, r)
        except Exception as e:
            return ("raise", spy.calls, e)
    finally:
        g["implementation"] = orig


def check_method(C, cls_label, cname, name, m, inst, md, viols, nested_cls):
    sig = inspect.signature(m)
    adv = [p for p in sig.parameters.values() if p.name != "self"]
    real, has_varkw = real_params(m)
    adv_names = [p.name for p in adv]
    has_adv_varkw = any(p.kind is P.VAR_KEYWORD for p in adv)
    virtual = [p.name for p in adv if p.name not in real and p.kind is not P.VAR_KEYWORD]
    required = [p.name for p in adv if p.default is P.empty and p.kind in (P.POSITIONAL_OR_KEYWORD, P.KEYWORD_ONLY)]
    positional = [p.name for p in adv if p.kind is P.POSITIONAL_OR_KEYWORD]

    def S(kind, **kw):
        d = {"kind": kind, "method": _gen(name), "cls": cls_label}
        d.update(kw)
        return d

    def case(**kw):
        return dict({"cls": cname, "method": name}, **kw)

    def expect_arrival(passed, res, how):
        status, calls, r = res
        if status != "ok" or len(calls) != 1:
            viols.append(violation(PROP, S("advertised_parameter_rejected", how=how, params="+".join(sorted(passed))[:40] if len(passed) < 3 else "many"),
                                   {"passed": sorted(passed), "outcome": repr(r)[:200], "signature": str(sig)}, case(passed=sorted(passed), how=how)))
            return
        args, kwargs = calls[0]
        for p, v in passed.items():
            if kwargs.get(p, "<absent>") is not v:
                viols.append(violation(PROP, S("parameter_did_not_arrive", how=how, param=_param(p, real)),
                                       {"param": p, "arrived": repr(kwargs.get(p, '<absent>'))[:80], "signature": str(sig)}, case(passed=sorted(passed), how=how)))
        for p in adv:
            if p.name in passed or p.kind is P.VAR_KEYWORD:
                continue
            if p.name in real:
                if p.default is not P.empty and kwargs.get(p.name, "<absent>") is not p.default and kwargs.get(p.name, "<absent>") != p.default:
                    viols.append(violation(PROP, S("omitted_parameter_default_differs", param=_param(p.name, real)),
                                           {"param": p.name, "advertised_default": repr(p.default), "arrived": repr(kwargs.get(p.name, '<absent>'))[:80]},
                                           case(passed=sorted(passed), how=how)))
            elif p.name in kwargs:
                viols.append(violation(PROP, S("omitted_virtual_parameter_present", param="virtual"),
                                       {"param": p.name, "arrived": repr(kwargs[p.name])[:80]}, case(passed=sorted(passed), how=how)))
        extra = set(kwargs) - set(adv_names) - {"self"}
        if extra and not has_adv_varkw:
            viols.append(violation(PROP, S("implementation_received_unadvertised", how=how), {"extra": sorted(extra)}, case(passed=sorted(passed), how=how)))

    n_checks = 0
    base = {r: sentinel(r) for r in required}
    # (1) single parameters and (2) pairs, by keyword
    singles = [p.name for p in adv if p.kind is not P.VAR_KEYWORD]
    for p in singles:
        passed = dict(base, **{p: sentinel(p)})
        expect_arrival(passed, call_with_spy(m, inst, (), passed), "keyword")
        n_checks += 1
    for p, q in itertools.combinations(singles, 2):
        passed = dict(base, **{p: sentinel(p), q: sentinel(q)})
        expect_arrival(passed, call_with_spy(m, inst, (), passed), "keyword_pair")
        n_checks += 1
    # (3) positional-or-keyword parameters passed positionally
    for i in range(1, len(positional) + 1):
        vals = [sentinel(x) for x in positional[:i]]
        passed = dict(zip(positional[:i], vals))
        rest = {r: sentinel(r) for r in required if r not in passed}
        passed_all = dict(passed, **rest)
        res = call_with_spy(m, inst, tuple(vals), rest)
        expect_arrival(passed_all, res, "positional")
        n_checks += 1
    # (4) one positional too many (keyword-only parameters cannot be passed positionally)
    res = call_with_spy(m, inst, tuple(sentinel(x) for x in positional) + (sentinel("extra"),), {})
    n_checks += 1
    if res[0] != "raise" or not isinstance(res[2], TypeError):
        viols.append(violation(PROP, S("too_many_positionals_accepted"), {"signature": str(sig), "outcome": repr(res[2])[:100]}, case(how="extra_positional")))
    # (5) unadvertised names on the REAL method
    if not has_adv_varkw:
        # incl. init-enabled attributes of OTHER spec classes that are in use (Leaf.x / ys, Keyed.key / n / zs, NestO.x, NestK.n)
        unadv = ["zzz_other", "_private", "hidden", "extras", "nmae", "__class__x", "x", "ys", "key", "n", "zs", "plain",
                  "kwargs", "args", "attrs"]  # (names the generated wrapper itself may use for its catch-all parameters)
        before = snap.canon([inst])
        for u in unadv:
            if u in adv_names:
                continue
            try:
                args_real = {}
                m(inst, **dict({r: None for r in required}, **{u: 1}))
                viols.append(violation(PROP, S("unadvertised_keyword_accepted", name=u if u in ("hidden", "extras") else "other"),
                                       {"keyword": u, "signature": str(sig)}, case(how="unadvertised", keyword=u)))
            except TypeError:
                pass
            except Exception as e:
                viols.append(violation(PROP, S("unadvertised_keyword_wrong_exception", error=type(e).__name__),
                                       {"keyword": u, "error": repr(e)[:200]}, case(how="unadvertised", keyword=u)))
            n_checks += 1
            if snap.canon([inst]) != before:
                viols.append(violation(PROP, S("unadvertised_keyword_changed_receiver"), {"keyword": u}, case(how="unadvertised", keyword=u)))
                break
            if "_if" in adv_names:
                # ... also when the call is switched off: a keyword outside the signature is refused before anything else is looked at
                for off in (False, 0):
                    try:
                        m(inst, **dict({r: None for r in required}, **{u: 1, "_if": off}))
                        viols.append(violation(PROP, S("unadvertised_keyword_accepted", name="with_if_false"),
                                               {"keyword": u, "_if": repr(off), "signature": str(sig)}, case(how="unadvertised_if_false", keyword=u)))
                    except TypeError:
                        pass
                    except Exception as e:
                        viols.append(violation(PROP, S("unadvertised_keyword_wrong_exception", error=type(e).__name__),
                                               {"keyword": u, "error": repr(e)[:200]}, case(how="unadvertised_if_false", keyword=u)))
                    n_checks += 1
    # (5b) real behaviour: explicit FALSY conforming values given to the constructor arrive as given
    if name == "__init__":
        cls = type(inst)
        advertised = set(inspect.signature(cls.__init__).parameters)
        for attr, a in md.attrs.items():
            if attr == md.init_overflow_attr or (not a.init and attr not in advertised):
                continue  # (an init=False attribute that the signature nevertheless advertises - e.g. the key - is judged)
            for fv in (0, "", [], {}, set(), None, False):
                from spec_classes.utils.type_checking import check_type as _ct

                if not _ct(fv, a.type) or (a.is_collection and not isinstance(fv, (list, dict, set))):
                    continue
                kw = {md.key: vars(inst)[md.key]} if md.key and md.key in vars(inst) and md.key != attr and md.key in advertised else {}
                try:
                    o = cls(**dict(kw, **{attr: fv}))
                except Exception:
                    continue
                n_checks += 1
                got = vars(o).get(attr, "<missing>")
                if got != fv or type(got) is not type(fv):
                    if a.prepare or a.prepare_item:
                        continue
                    viols.append(violation(PROP, S("falsy_constructor_value_not_stored", attr_owner="parent" if a.owner is not cls else "own"),
                                           {"attr": attr, "given": repr(fv), "stored": repr(got)[:80]}, case(how="falsy", keyword=attr)))
                break
    # (5c) defaults are as shown: an advertised default that is a plain value is what an instance built without that
    #      keyword holds (factories and missing values are advertised as MISSING and are not judged here)
    if name == "__init__":
        import spec_classes as _sc

        cls = type(inst)
        shown = {pn: p.default for pn, p in inspect.signature(cls.__init__).parameters.items()
                 if pn in md.attrs and p.default is not inspect.Parameter.empty and p.default is not _sc.MISSING}
        if "__init__" not in vars(cls):
            shown = {}  # an undecorated subclass inherits its parent's constructor OBJECT, signature included: what that signature
            #             shows are the parent's defaults (the subclass's own re-defaults are C09's subject)
        if shown:
            kw = {md.key: vars(inst)[md.key]} if md.key and md.key in vars(inst) and md.key not in shown else {}
            try:
                o = cls(**kw)
            except Exception:
                o = None
            if o is not None:
                for pn, dv in shown.items():
                    a = md.attrs[pn]
                    if a.prepare or a.prepare_item or a.is_masked:
                        continue
                    n_checks += 1
                    got = vars(o).get(pn, "<missing>")
                    try:
                        same = got == dv and type(got) is type(dv)
                    except Exception:
                        same = True
                    if not same:
                        viols.append(violation(PROP, S("advertised_default_is_not_the_real_default"),
                                               {"attr": pn, "advertised": repr(dv)[:80], "real": repr(got)[:80]}, case(how="default", keyword=pn)))
    # (6) nested keywords one-to-one with the init-enabled attributes of the nested class
    if nested_cls is not None and name not in ("reset",) and not name.startswith(("reset_", "without_")):
        nmd = nested_cls.__spec_class__
        want = [n for n, a in nmd.attrs.items() if a.init and n != nmd.init_overflow_attr]
        taken = set(real)
        want = [n for n in want if n not in taken]
        if sorted(virtual) != sorted(want):
            viols.append(violation(PROP, S("nested_keywords_differ", missing=sorted(set(want) - set(virtual))[:3], unexpected=sorted(set(virtual) - set(want))[:3]),
                                   {"virtual": virtual, "expected": want, "signature": str(sig)}, case(how="nested")))
        n_checks += 1
    return n_checks


def _gen(n):
    for p in ("with_", "update_", "transform_", "reset_", "without_"):
        if n.startswith(p):
            return p + "*"
    return n


def _param(p, real):
    return p if p.startswith("_") else ("real_attr" if p in real else "virtual")


def nested_for(ns, cls, name, md):
    """nested spec class whose attributes a method's keywords should mirror"""
    if name in ("__init__", "__spec_class_init__", "update", "transform"):
        return cls
    for pre in ("with_", "update_", "transform_"):
        if name.startswith(pre):
            rest = name[len(pre):]
            for attr, a in md.attrs.items():
                if rest == attr and a.spec_type is not None:
                    return a.spec_type
                if a.is_collection and rest == a.item_name and a.item_spec_type is not None:
                    return a.item_spec_type
    return None


def worker(task):
    C = Counter()
    if task.get("host"):
        ns = {"__name__": "verif_c17"}
        exec(compile(G.PRELUDE, "<c17-prelude>", "exec", dont_inherit=True), ns)
        exec(compile(HOST_SRC, "<c17-host>", "exec", dont_inherit=True), ns)
        classes = [("Host", ns["Host"], {}), ("NestO", ns["NestO"], {}), ("NestK", ns["NestK"], {"key": "k"})]
        label = "host"
    else:
        rec = task["rec"]
        env = G.Env(rec)
        ns = env.ns
        o = rec.get("opts", {})
        kw = {}
        if o.get("key"):
            kk = next(a for a in rec["attrs"] if G.attr_name(a) == o["key"])
            kw = {o["key"]: env.mk(G.KINDS[kk["kind"]]["conf"][-1])} if kk.get("default") != "attr_noinit" else {}
        classes = [(rec["name"], env.cls, kw)]
        label = rec["name"] if rec["name"].startswith("Comp") else "single:" + "+".join(a["kind"] for a in rec["attrs"])
    for cname, cls, kw in classes:
        md = cls.__spec_class__
        inst = cls(**kw)
        C.inc("states")
        for name, m in generated_methods(cls):
            viols = []
            n = check_method(C, label, cname, name, m, inst, md, viols, nested_for(ns, cls, name, md))
            C.inc("transitions", n)
            C.inc("evaluations", n)
            for v in viols:
                v["case"]["task"] = task
                C.viol(v)
            if not viols:
                C.inc("traces_validated_against_impl", n)
                C.nontrivial((cname, name))
    C.sample({"class": classes[0][0], "methods": [n for n, _ in generated_methods(classes[0][1])][:8],
              "example_signature": str(inspect.signature(generated_methods(classes[0][1])[0][1]))})
    return C.rec


# ------------------------------------------------------------------------------------------------
# end-to-end: advertised nested keywords reach the nested object (not spied), in every order of first uses
# ------------------------------------------------------------------------------------------------
EFFECT_SRC = '''
@spec_class
class PBase:
    colour: str = "c"
    limit: int = 10

@spec_class(key="name")
class PSub(PBase):
    name: str
    size: int = 0
    limit: int = 20          # re-annotated: PSub owns `limit` now

@spec_class(init_overflow_attr="extra")
class POver:
    level: int = 1

@spec_class(key="code")
class Warning:               # a user class that merely shares its NAME with a builtin
    code: str
    text: str = ""
    def __post_init__(self):
        self.seen_at_post_init = (getattr(self, "code", None), self.text)

@spec_class(init_overflow_attr="options")
class filter:                # likewise (and with an overflow attribute)
    depth: int = 1

@spec_class
class Host2:
    base: PBase
    sub: PSub
    kids: List[PSub] = []
    lookup: Dict[str, PSub] = {}
    opts: POver
    flag: int = 0
    sw: bool = False
    first_warning: Warning
    flt: filter
'''


def _st(o):
    return None if o is None else tuple(sorted((k, v) for k, v in vars(o).items() if not k.startswith("_")))


EFFECT_OPS = {
    # name: (call, observation, expected)
    "with_base_kw": (lambda ns, h: h.with_base(colour="x", limit=3), lambda r: _st(r.base), (("colour", "x"), ("limit", 3))),
    "with_sub_kw": (lambda ns, h: h.with_sub(name="n", size=2, colour="y", limit=7), lambda r: _st(r.sub),
                    (("colour", "y"), ("limit", 7), ("name", "n"), ("size", 2))),
    "with_sub_dict_plus_kw": (lambda ns, h: h.with_sub({"size": 3}, name="k"), lambda r: _st(r.sub),
                              (("colour", "c"), ("limit", 20), ("name", "k"), ("size", 3))),
    "update_sub_dict_plus_kw": (lambda ns, h: h.update_sub({"size": 5}, name="u"), lambda r: _st(r.sub),
                                (("colour", "c"), ("limit", 20), ("name", "u"), ("size", 5))),
    "with_kid_kw": (lambda ns, h: h.with_kid(name="a", size=1, limit=8), lambda r: _st(r.kids[-1]),
                    (("colour", "c"), ("limit", 8), ("name", "a"), ("size", 1))),
    "with_kid_dict_plus_kw": (lambda ns, h: h.with_kid({"size": 4}, name="z"), lambda r: _st(r.kids[-1]),
                              (("colour", "c"), ("limit", 20), ("name", "z"), ("size", 4))),
    "with_lookup_item_kw": (lambda ns, h: h.with_lookup_item("q", name="q", size=6), lambda r: _st(r.lookup["q"]),
                            (("colour", "c"), ("limit", 20), ("name", "q"), ("size", 6))),
    "ctor_sub_kw": (lambda ns, h: ns["PSub"](name="m", limit=77, colour="z", size=9), lambda r: _st(r),
                    (("colour", "z"), ("limit", 77), ("name", "m"), ("size", 9))),
    "ctor_base_kw": (lambda ns, h: ns["PBase"](limit=5, colour="w"), lambda r: _st(r), (("colour", "w"), ("limit", 5))),
    # a nested class with an overflow attribute advertises **extra: declared keywords and arbitrary ones, in either order
    "with_opts_declared_kw": (lambda ns, h: h.with_opts(level=2), lambda r: _st(r.opts), (("extra", {}), ("level", 2))),
    "with_opts_overflow_kw": (lambda ns, h: h.with_opts(timeout=10), lambda r: _st(r.opts), (("extra", {"timeout": 10}), ("level", 1))),
    "with_opts_other_overflow_kw": (lambda ns, h: h.with_opts(retries=3, level=4), lambda r: _st(r.opts), (("extra", {"retries": 3}), ("level", 4))),
    # nested classes named like builtins are ordinary constructors: keywords go through the constructor, not around it
    "with_builtin_named_keyed_kw": (lambda ns, h: h.with_first_warning(code="W1", text="t"), lambda r: _st(r.first_warning),
                                    (("code", "W1"), ("seen_at_post_init", ("W1", "t")), ("text", "t"))),
    "with_builtin_named_overflow_kw": (lambda ns, h: h.with_flt(depth=2, mode="m"), lambda r: _st(r.flt), (("depth", 2), ("options", {"mode": "m"}))),
    # a keyword whose value EQUALS the current one but is not it (True == 1, 0 == False): it still has to arrive
    "update_flag_equal_other_type": (lambda ns, h: h.update(flag=False), lambda r: (type(r.flag).__name__, r.flag), ("bool", False)),
    "update_sw_equal_other_type": (lambda ns, h: h.update(sw=0), lambda r: ("raised-or-stored", type(r.sw).__name__), ("raised", "TypeError", "")),
}


def effect_case(order, out):
    ns = {"__name__": "verif_c17_effects"}
    exec(compile(G.PRELUDE, "<c17-prelude>", "exec", dont_inherit=True), ns)
    exec(compile(EFFECT_SRC, "<c17-effects>", "exec", dont_inherit=True), ns)
    ok = True
    for i, name in enumerate(order):
        call, obs, want = EFFECT_OPS[name]
        h = ns["Host2"]()
        try:
            got = obs(call(ns, h))
        except Exception as e:
            got = ("raised", type(e).__name__, str(e)[:80])
        if isinstance(want, tuple) and want and want[0] == "raised" and isinstance(got, tuple) and got[:2] == want[:2]:
            continue
        if got != want:
            out.append(violation(PROP, {"part": "effects", "kind": "advertised_keyword_did_not_reach_the_nested_object", "call": name, "position": i,
                                        "first": order[0], "raised": got[1] if got and got[0] == "raised" else None},
                                 {"expected": repr(want), "got": repr(got), "order": list(order)}, {"part": "effects", "order": list(order)}))
            ok = False
    return ok


def effects_worker(task):
    C = Counter()
    for order in task["orders"]:
        out = []
        ok = effect_case(order, out)
        C.inc("states")
        C.inc("transitions", len(order))
        C.inc("evaluations", len(order))
        for v in out:
            C.viol(v)
        if ok:
            C.inc("traces_validated_against_impl", len(order))
            C.nontrivial(tuple(order))
    C.sample({"part": "effects", "order": list(task["orders"][0])})
    return C.rec


def run_case(case):
    if case.get("part") == "effects":
        out = []
        effect_case(tuple(case["order"]), out)
        return out
    sub = worker(case["task"])
    return [v for v in sub["violations"] if v["case"]["method"] == case["method"] and v["case"].get("how") == case.get("how")
            and v["case"].get("passed") == case.get("passed") and v["case"].get("keyword") == case.get("keyword")]


def dispatch(task):
    return effects_worker(task) if task.get("effects") else worker(task)


def main(run):
    quick = run.tier == "quick"
    recs = G.quick_family() if quick else G.full_family()
    recs = recs + [G.single("str", "attr_noinit", key="s"), G.composite("CompKeyNoInit", [("str", "attr_noinit"), ("int", "lit")], key="s")]
    tasks = [{"rec": r} for r in recs] + [{"host": True}]
    names = sorted(EFFECT_OPS)
    orders = [o for r in ((1, 2) if quick else (1, 2, 3)) for o in itertools.permutations(names, r)]
    tasks += [{"effects": True, "orders": orders[i:i + 40]} for i in range(0, len(orders), 40)]
    for rec in pmap(dispatch, tasks):
        run.merge(rec)
    run.add(rule=(
        "per class x per generated method (constructor, update/transform/reset, 4 scalar + 4 element helpers per attribute): every single "
        "advertised parameter and every pair by keyword, every prefix of positional-or-keyword parameters positionally, one positional too many, "
        "6 unadvertised names on the real method, nested-keyword correspondence; states = classes, transitions = calls; plus, unspied: 9 calls "
        "passing nested keywords (alone, or with a dict of constructor arguments) to nested / element / subclass constructors in every order of "
        "<= 2/3 first uses on fresh classes, judged by the attribute values of the object built"
    ))
    run.assumptions += [
        "the generated wrapper calls a module-global named `implementation` (spied); a signature ending in **<overflow> advertises arbitrary keywords",
        "values passed through the spy are opaque sentinels (the spy does not execute the behaviour); unadvertised keywords are tried on the real method",
    ]
